"""Reading the solver's counter-model (as stored in a replay file: {decl name: printed z3 value}).
Only what the builders need: scalars, and arrays printed as K(sort, v) / Store(a, i, v)."""
import json
import re
from fractions import Fraction


def load(path):
    rec = json.load(open(path))
    return rec, (rec.get("model") or {})


def scalar(text):
    t = text.strip()
    if t in ("True", "False"):
        return t == "True"
    try:
        if "/" in t:
            return Fraction(t.replace(" ", ""))
        return Fraction(t)
    except ValueError:
        return t


def _split_args(s):
    out, depth, cur = [], 0, ""
    for ch in s:
        if ch == "(":
            depth += 1
        elif ch == ")":
            depth -= 1
        if ch == "," and depth == 0:
            out.append(cur)
            cur = ""
        else:
            cur += ch
    out.append(cur)
    return [x.strip() for x in out]


def array(text):
    """-> (default, {index text: value text}) for K(...)/Store(...) values"""
    t = " ".join(text.split())
    stores = {}
    while t.startswith("Store("):
        a, i, v = _split_args(t[6:-1])
        stores.setdefault(i, v)
        t = a
    m = re.match(r"^K\((.*)\)$", t)
    default = _split_args(m.group(1))[1] if m else None
    return default, stores


def select(model, arr_name, index_text):
    v = model.get(arr_name)
    if v is None:
        return None
    default, stores = array(v)
    return stores.get(index_text, default)


def find(model, prefix):
    """value text of the first declaration whose name starts with prefix (fresh names carry a !k suffix)"""
    for k in sorted(model, key=lambda x: (len(x), x)):
        if k == prefix or k.startswith(prefix + "!"):
            return model[k]
    return None


def field(model, fname, sort, obj_text, version=None):
    """value of heap field fname (entry version H_<f>#<sort>) at object obj_text"""
    return select(model, "H_%s#%s" % (fname, sort), obj_text)
