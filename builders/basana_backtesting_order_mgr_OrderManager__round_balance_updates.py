"""Replay of a counter-model of OrderManager._round_balance_updates on the real code.
Reads the base / quote amounts and the two precisions from the model, builds a real Exchange configured that way, runs the
real method and re-evaluates the statement-derived clause price_kept with the tightest bound L = |quote| / |base|:
rounding must not move the effective price of the fill by more than half a quote unit per ... (see contracts/order_mgr.py)."""
import sys, os, re
sys.path.insert(0, os.path.dirname(os.path.abspath(__file__)))
sys.path.insert(0, os.getcwd())
import _model
from decimal import Decimal
from fractions import Fraction

rec, m = _model.load(sys.argv[1])
bu = _model.find(m, "balance_updates")
pair = _model.find(m, "pair")
pm = re.match(r"^\w+\((\S+), (\S+)\)$", " ".join((pair or "").split()))
if bu is None or pm is None:
    print("model does not determine the arguments"); sys.exit(2)
bsym, qsym = pm.group(1), pm.group(2)
vals = _model.select(m, "H_$val#Str#Real", bu)
dom = _model.select(m, "H_$dom#Str", bu)
if vals is None or dom is None:
    print("model does not determine the map"); sys.exit(2)
vd, vs = _model.array(vals)
dd, ds = _model.array(dom)
get = lambda s: _model.scalar(vs.get(s, vd))
has = lambda s: _model.scalar(ds.get(s, dd)) is True
info = _model.find(m, "res_get_pair_info")
bp = _model.scalar(_model.select(m, "H_base_precision#Int", info) or "0")
qp = _model.scalar(_model.select(m, "H_quote_precision#Int", info) or "0")
bp, qp = int(bp), int(qp)
if not (0 <= bp <= 12 and 0 <= qp <= 12) or not has(bsym) or not has(qsym):
    print("model outside the replayable range (precisions %s/%s, base present %s, quote present %s)" % (bp, qp, has(bsym), has(qsym))); sys.exit(2)
a, q = get(bsym), get(qsym)
dec = lambda x: Decimal(x.numerator) / Decimal(x.denominator)
import basana as bs
from basana.backtesting import exchange as bt_exchange
from basana.backtesting.value_map import ValueMap
P = bs.Pair("BASE", "QUOTE")
e = bt_exchange.Exchange(bs.backtesting_dispatcher(), {})
e.set_pair_info(P, bs.PairInfo(bp, qp))
vm = ValueMap({"BASE": dec(a), "QUOTE": dec(q)})
print("input: base %s quote %s precisions %d/%d" % (vm["BASE"], vm["QUOTE"], bp, qp))
e._order_mgr._round_balance_updates(vm, P)
nb, nq = vm.get("BASE", Decimal(0)), vm.get("QUOTE", Decimal(0))
print("real result: base %s quote %s" % (nb, nq))
if a == 0:
    print("not reproduced (no base amount)"); sys.exit(0)
L = abs(dec(q)) / abs(dec(a))
u = Decimal(1).scaleb(-qp)
lo, hi = L * abs(nb) - u / 2, L * abs(nb) + u / 2
print("effective price before %s, bound on the rounded quote amount [%s, %s], got %s" % (L, lo, hi, abs(nq)))
if not (lo <= abs(nq) <= hi):
    print("REPRODUCED: rounding changed the effective price of the fill"); sys.exit(1)
print("not reproduced"); sys.exit(0)
