"""Replay of a counter-model of Bar.__init__ on the real class: a Bar that is constructed must satisfy low <= open, close <= high."""
import sys, os, datetime
sys.path.insert(0, os.path.dirname(os.path.abspath(__file__)))
sys.path.insert(0, os.getcwd())
import _model
from decimal import Decimal

rec, m = _model.load(sys.argv[1])
vals = {}
for nm in ("open", "high", "low", "close", "volume"):
    v = _model.find(m, nm)
    vals[nm] = _model.scalar(v) if v is not None else 0
dec = lambda x: Decimal(x.numerator) / Decimal(x.denominator) if hasattr(x, "numerator") else Decimal(0)
import basana as bs
from basana.core import bar
args = {k: dec(v) for k, v in vals.items()}
print("arguments:", args)
try:
    b = bar.Bar(datetime.datetime(2020, 1, 1, tzinfo=datetime.timezone.utc), bs.Pair("A", "B"), args["open"], args["high"], args["low"], args["close"], args["volume"])
except bar.InvalidBar as e:
    print("rejected:", e)
    ok = not (args["low"] <= args["open"] <= args["high"] and args["low"] <= args["close"] <= args["high"])
    if not ok:
        print("REPRODUCED: a consistent bar was rejected"); sys.exit(1)
    print("not reproduced"); sys.exit(0)
if not (b.low <= b.open <= b.high and b.low <= b.close <= b.high):
    print("REPRODUCED: constructed bar violates low <= open, close <= high:", b.open, b.high, b.low, b.close); sys.exit(1)
print("not reproduced"); sys.exit(0)
