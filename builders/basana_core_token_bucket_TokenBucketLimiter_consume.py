"""Replay of a counter-model of TokenBucketLimiter.consume on the real class (run under /venv/bin/python, cwd=/repo).
Builds the limiter state of the model, fixes time.time() to the model's clock reading, calls the real consume() and
re-evaluates the statement-derived clauses (level / wait) on the result.  exit 1 + REPRODUCED = the real code violates it."""
import sys, os
sys.path.insert(0, os.path.dirname(os.path.abspath(__file__)))
sys.path.insert(0, os.getcwd())
import _model
from fractions import Fraction

rec, m = _model.load(sys.argv[1])
self_ = _model.find(m, "self")
get = lambda f: _model.scalar(_model.field(m, f, "Real", self_))
tpp, period, tokens, last, cap = (get(f) for f in ("_tokens_per_period", "_period_duration", "_tokens", "_last", "_capacity"))
now = _model.find(m, "now")
if None in (tpp, period, tokens, last) or now is None:
    print("model does not determine the limiter state"); sys.exit(2)
now = _model.scalar(now)
from basana.core import token_bucket
tb = token_bucket.TokenBucketLimiter.__new__(token_bucket.TokenBucketLimiter)
tb._tokens_per_period, tb._period_duration, tb._tokens, tb._last = float(tpp), float(period), float(tokens), float(last)
if cap is not None and hasattr(token_bucket.TokenBucketLimiter(1, 1), "_capacity"):
    tb._capacity = float(cap)
token_bucket.time.time = lambda: float(now)
res = tb.consume()
rate = Fraction(tpp) / Fraction(period)
capacity = cap if cap is not None else tpp
refilled = Fraction(tokens) + (Fraction(now) - Fraction(last)) * rate
want_level = min(Fraction(capacity), refilled) - 1
want_wait = max(Fraction(0), -want_level) / rate
print("state: tokens_per_period=%s period=%s tokens=%s last=%s capacity=%s now=%s" % (tpp, period, tokens, last, capacity, now))
print("real consume(): level=%r wait=%r   statement: level=%s wait=%s" % (tb._tokens, res, float(want_level), float(want_wait)))
ok = abs(tb._tokens - float(want_level)) <= 1e-6 * max(1, abs(float(want_level))) and abs(res - float(want_wait)) <= 1e-6 * max(1, float(want_wait))
if not ok:
    print("REPRODUCED: the real consume() departs from the statement on this state"); sys.exit(1)
print("not reproduced"); sys.exit(0)
