"""Per-property metadata: claimed level, clauses not covered, bounded stand-ins, assumptions, lemmas."""
import importlib
import time

LEVELS = {}
NOT_COVERED = {}
BOUNDED = {}
ASSUMPTIONS = {}
EXTRA_TRUST = {}
LEMMAS = {}     # prop -> list of callables returning [(name, hyps, goal, clause_text)]


def lemma(prop):
    def deco(f):
        LEMMAS.setdefault(prop, []).append(f)
        return f
    return deco


def run_lemmas(prop, tier):
    from . import solve
    from .state import Obligation
    try:
        importlib.import_module("lemmas")
    except ImportError:
        pass
    out = []
    for f in LEMMAS.get(prop, []):
        for name, hyps, goal, text in f():
            ob = Obligation(name, hyps, goal)
            t0 = time.time()
            try:
                import z3
                vs = z3.Solver()
                vs.set("timeout", 5000)
                for h in hyps:
                    vs.add(h)
                if vs.check() == z3.unsat:
                    raise RuntimeError("vacuous lemma: hypotheses are contradictory")
                r = solve.decide(ob, [], 20000 if tier == "quick" else 120000, True)
                out.append({"name": name, "kind": "lemma", "props": [prop], "clause": text, "status": r[1], "backend": r[2],
                            "seconds": r[3], "model": r[4], "tried": r[5], "func": "lemma", "smt2": r[6][:20000]})
            except Exception as e:
                out.append({"name": name, "kind": "lemma", "props": [prop], "clause": text, "status": "error", "backend": "-",
                            "seconds": time.time() - t0, "error": str(e), "func": "lemma"})
    return out
