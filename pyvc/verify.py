"""Verification of one function against its sidecar contract: path enumeration + obligation generation."""
import ast
import time
import traceback
import z3

from .vtypes import (RefS, StrS, NULL, Val, NONE, REG, sort_of, is_ref, is_opt, strip_opt, FALSE, TRUE, ty_str)
from .state import (State, Frame, PathEnd, Unsupported, ReturnExc, BreakExc, ContinueExc, RaiseExc, ExcVal, Obligation)
from . import calls, specs, prelude

MAX_PATHS = 4000


class FunctionResult:
    def __init__(self, key):
        self.key = key
        self.obligations = []     # Obligation
        self.paths = 0
        self.error = None         # Unsupported / crash text
        self.outcomes = {}        # 'normal' / 'raise:X' -> count
        self.path_ends = {}       # reason -> number of paths abandoned for it (loop iteration done, infeasible, ...)
        self.requires_formula = None
        self.seconds = 0.0
        self.sha = None
        self.loc = None
        self.inlined = set()
        self.used_contracts = set()
        self.drops = set()
        self.str_axioms = []


def initial_state(I, st, c, fi):
    fr = Frame(fi, fi.module)
    st.frames.append(fr)
    a = fi.node.args
    if a.vararg or a.kwarg:
        raise Unsupported("*args/**kwargs in verified function %s" % fi.qualname)
    params = list(a.posonlyargs + a.args + a.kwonlyargs)
    env = {}
    for p in params:
        ty = calls.param_type(I, st, fi, p, c)
        if ty is None or ty == "Any":
            v = Val("Any", st.fresh(RefS, p.arg))
        else:
            v = st.fresh_val(ty, p.arg)
        env[p.arg] = v
    fr.vars.update(env)
    fr.entry_vars = dict(env)
    fr.spec_env = env
    for k, tystr in c.env.items():
        env[k] = st.fresh_val(REG.parse(tystr), k)
        st.ghost[k] = env[k]
    return fr, env


def match_raises(I, c, exc):
    best = None
    for key in c.raises:
        k = key.rstrip("!")
        if key.endswith("!"):
            if exc.exact and exc.cls == k:
                return key
            continue
        if I.exc_is_sub(exc.cls, k):
            if best is None or I.exc_is_sub(k, best.rstrip("!")):
                best = key
    return best


def run_path(I, st, c, fi, res):
    fr, env = initial_state(I, st, c, fi)
    short = I.short(fi)
    reqs = []
    for cl in c.requires:
        g = specs.eval_clause(I, st, cl, env, fi)
        reqs.append(g)
        st.assume(g)
    cinv = class_invariant_of(I, fi)
    if cinv is not None and fi.name != "__init__":
        for cl in cinv.clauses:
            st.assume(specs.eval_clause(I, st, cl, env, fi))
    if res.requires_formula is None:
        res.requires_formula = list(st.pc)
    if not st.feasible():
        raise PathEnd("requires infeasible")
    for cl in c.axioms:
        if "old(" not in cl.text:
            st.assume(specs.eval_clause(I, st, cl, env, fi))
    for cl in c.hints:
        g = specs.eval_clause(I, st, cl, env, fi)
        st.oblige("%s.hint[%s]" % (short, cl.label), g, meta={"kind": "hint", "clause": cl.text, "props": c.props})
    outcome = None
    result = NONE
    if fi.is_ctxmgr:
        # a @contextmanager generator verified on its own: at the yield an arbitrary `with` body runs -- a suspension
        # point (rely of the contract) that ends normally or raises an arbitrary exception into the generator
        from . import generators, asyncio_model

        def body(v):
            asyncio_model.snapshot(I, st)
            asyncio_model.suspend(I, st)
            k = st.choose(3, "with-body outcome")
            if k == 1:
                raise RaiseExc(ExcVal("Exception", False))
            if k == 2:
                raise RaiseExc(ExcVal("CancelledError", True))
            return NONE
        fr.yield_handler = generators._YieldHandler(body)
    try:
        I.exec_block(st, fi.node.body)
        outcome = "normal"
    except ReturnExc as r:
        outcome = "normal"
        result = r.value
    except RaiseExc as r:
        outcome = "raise"
        exc = r.exc
        where = r.where
    except (BreakExc, ContinueExc):
        raise Unsupported("break/continue outside loop")
    for cl in c.axioms:
        # instances of proved axioms (finite sums): valid formulas, assumed before the postconditions are checked
        st.assume(specs.eval_clause(I, st, cl, env, fi))
    if outcome == "normal" and c.ghost_exit:
        # ghost assignments executed at normal exit (ghost state lives only in contracts)
        import ast as _ast
        for loc, expr in c.ghost_exit:
            ln = _ast.parse(loc, mode="eval").body
            ev = specs.eval_spec(I, st, _ast.parse(expr, mode="eval").body, env, fi)
            ov = specs.eval_spec(I, st, ln.value, env, fi)
            fty = I.field_type(strip_opt(ov.ty)[1], ln.attr)
            I.write_field(st, ov, ln.attr, fty, ev)
    if outcome == "normal":
        res.outcomes["normal"] = res.outcomes.get("normal", 0) + 1
        rt = calls.return_type(I, st, fi, c, env.get("self"))
        if rt is not None and rt not in ("Any", "NoneT"):
            result = calls.adapt(I, st, result, rt)
        env2 = dict(env)
        env2["result"] = result
        for cl in c.ensures:
            g = specs.eval_clause(I, st, cl, env2, fi)
            # clauses are proved in order, each one available to the next (proving A, then B under A, is proving A and B)
            st.oblige("%s.ensures[%s]" % (short, cl.label), g, meta={"kind": "ensures", "clause": cl.text, "props": cl.props},
                      assume_after=True)
    else:
        tag = "raise:" + exc.cls
        res.outcomes[tag] = res.outcomes.get(tag, 0) + 1
        key = match_raises(I, c, exc)
        if key is None:
            st.oblige("%s.no_escape[%s]" % (short, exc.cls), FALSE,
                      meta={"kind": "no_escape", "clause": "%s must not escape (raised at line %s)" % (exc.cls, where),
                            "props": c.props}, assume_after=False)
        else:
            st.oblige("%s.raises[%s][declared]" % (short, key), TRUE,
                      meta={"kind": "raises", "clause": "%s is a declared exceptional outcome" % key, "props": c.props}, assume_after=False)
            for cl in c.raises[key]:
                g = specs.eval_clause(I, st, cl, env, fi)
                st.oblige("%s.raises[%s][%s]" % (short, key, cl.label), g,
                          meta={"kind": "raises", "clause": cl.text, "props": cl.props}, assume_after=False)
    if cinv is not None:
        for cl in cinv.clauses:
            g = specs.eval_clause(I, st, cl, env, fi)
            st.oblige("%s.class_inv[%s]" % (short, cl.label), g,
                      meta={"kind": "class_invariant", "clause": cl.text, "props": c.props}, assume_after=False)
    frame_obligations(I, st, c, fi, env, short)


def class_invariant_of(I, fi):
    if fi.cls is None:
        return None
    for anc in fi.cls.mro():
        kd = REG.by_qualname.get(anc.qualname)
        if kd is not None and kd.name in I.db.class_invariants:
            return I.db.class_invariants[kd.name]
    return None


def sole_writer_scan(I, cinv):
    """(i) private fields of the class are assigned / mutated only inside the class's own methods"""
    import ast as _ast
    kd = REG.get(cinv.klass)
    own = None
    for q, k2 in REG.by_qualname.items():
        if k2 is kd:
            own = q
    bad = []
    MUT = {"append", "pop", "extend", "clear", "remove", "add", "update", "setdefault", "sort", "insert", "discard", "popitem"}
    for q, fi in I.repo.functions.items():
        if fi.cls is not None and own is not None and fi.cls.qualname == own:
            continue
        for n in _ast.walk(fi.node):
            tgt = []
            if isinstance(n, _ast.Assign):
                tgt = n.targets
            elif isinstance(n, (_ast.AugAssign, _ast.AnnAssign)):
                tgt = [n.target]
            elif isinstance(n, _ast.Delete):
                tgt = n.targets
            for t in tgt:
                base = t
                while isinstance(base, _ast.Subscript):
                    base = base.value
                if isinstance(base, _ast.Attribute) and base.attr in cinv.private and isinstance(t, (_ast.Attribute, _ast.Subscript)):
                    if base is t or isinstance(t, _ast.Subscript):
                        # an attribute of the same name on an unrelated class is not a write to ours: only flag when the
                        # receiver can be an instance of the class (unknown receivers are flagged conservatively)
                        bad.append((fi.loc, _ast.unparse(t)))
            if isinstance(n, _ast.Call) and isinstance(n.func, _ast.Attribute) and n.func.attr in MUT \
                    and isinstance(n.func.value, _ast.Attribute) and n.func.value.attr in cinv.private:
                bad.append((fi.loc, _ast.unparse(n.func)))
    return bad


def frame_obligations(I, st, c, fi, env, short):
    """every heap location written by the path is covered by `modifies` (or belongs to a fresh object)"""
    if not st.written:
        return
    prev = st.in_old
    st.in_old = True
    try:
        locs = calls.modifies_locations(I, st, c, env, c.modifies)
    finally:
        st.in_old = prev
    bykey = {}
    every = []
    for v, keys in locs:
        if isinstance(v, calls.Every):
            every.append(v)
            continue
        for key, sort in keys:
            bykey.setdefault(key, []).append(v)
    for key in sorted(st.written):
        cur = st.heap[key]
        old = getattr(st, "frame_base", {}).get(key, st.heap0.get(key))
        if old is None or cur is old or cur.eq(old):
            continue
        if key == "$cls":
            continue
        o = z3.FreshConst(RefS, "fo")
        excl = [z3.Or(v.none, o != v.term) if not z3.is_false(v.none) else o != v.term for v in bykey.get(key, [])]
        for ev in every:
            if ev.only is not None and key not in ev.only:
                continue
            if key == "$len" or key.startswith("$dom") or key.startswith("$val") or key.startswith("$items"):
                excl.append(z3.Not(ev.covers_content(I, st, o)))
            else:
                excl.append(z3.Not(ev.covers_object(st, o)))
        own = []
        if every and (key == "$len" or key.startswith("$dom") or key.startswith("$val") or key.startswith("$items")):
            # the owner of a container that existed at entry existed at entry too (or is no object at all): objects
            # allocated by this function cannot already own an older container
            ow = prelude.owner_obj(o)
            own = [z3.Or(z3.Select(st.alloc0, ow), z3.Not(z3.Select(st.alloc, ow)))]
        goal = z3.ForAll([o], z3.Implies(z3.And(z3.Select(st.alloc0, o), *(excl + own)), z3.Select(cur, o) == z3.Select(old, o)))
        st.oblige("%s.frame[%s]" % (short, key), goal, meta={"kind": "frame", "clause": "only `modifies` locations of heap field %s change" % key,
                                                           "props": c.props}, assume_after=False)


def function_shape(fi):
    """loop headers of the function in source order: sidecar loop invariants are keyed by loop ordinal, so they only mean
    what their author meant as long as this list is what it was when they were written"""
    loops_ = [x for x in ast.walk(fi.node) if isinstance(x, (ast.For, ast.While, ast.AsyncFor))]
    loops_.sort(key=lambda x: (x.lineno, x.col_offset))
    out = []
    for x in loops_:
        # (kind and loop variables only: a changed condition or iterated expression is a change the invariants can judge)
        if isinstance(x, ast.While):
            out.append("while")
        else:
            out.append("for %s" % ast.unparse(x.target))
    return out


def verify_function(I, c, fi):
    res = FunctionResult(c.key)
    res.shape = function_shape(fi)
    res.sha = fi.sha
    res.loc = fi.loc
    t0 = time.time()
    sink = []
    worklist = [[]]
    I.current_target = fi.qualname
    I.current_contract = c
    I.db.active_variant = c.callee_variant
    I.inlined = set()
    I.used_contracts = set()
    I.drops = set()
    try:
        while worklist:
            trace = worklist.pop()
            st = State(trace=trace, sink=sink, worklist=worklist, label=c.key)
            try:
                run_path(I, st, c, fi, res)
            except PathEnd as pe:
                why = str(pe) or "-"
                res.path_ends[why] = res.path_ends.get(why, 0) + 1
            res.paths += 1
            if res.paths > MAX_PATHS:
                raise Unsupported("more than %d paths in %s" % (MAX_PATHS, fi.qualname))
    except Unsupported as e:
        res.error = "unsupported: %s" % e
    except Exception as e:  # checker crash for this function
        res.error = "crash: %s\n%s" % (e, traceback.format_exc())
    finally:
        I.current_target = None
        I.current_contract = None
        I.db.active_variant = None
    seen = {}
    for key, ob in sink:
        if key not in seen:
            seen[key] = ob
    res.obligations = list(seen.values())
    res.seconds = time.time() - t0
    res.inlined = set(I.inlined)
    res.used_contracts = set(I.used_contracts)
    res.drops = set(I.drops)
    res.str_axioms = I.str_distinct_axioms()
    return res


# =======================================================================================
# behavioural subtyping: an override's contract refines the base contract used at dynamic call sites
# =======================================================================================
def find_base_contract(I, c, fi):
    """the abstract base contract (if any) that call sites use for this override"""
    if fi.cls is None or "no-refinement-check" in (c.notes or ""):
        return None, None
    for anc in fi.cls.mro()[1:]:
        fm = anc.methods.get(fi.name)
        if fm is not None:
            bc = I.db.get(fm.qualname)
            if bc is not None and bc.abstract:
                return bc, fm
    return None, None


def run_refinement_path(I, st, c, fi, bc, bfi, res):
    fr, env = initial_state(I, st, c, fi)
    short = "%s.refines[%s]" % (I.short(fi), I.short(bfi))
    for cl in bc.requires:
        st.assume(specs.eval_clause(I, st, cl, env, bfi))
    if res.requires_formula is None:
        res.requires_formula = list(st.pc)
    for cl in c.requires:
        g = specs.eval_clause(I, st, cl, env, fi)
        st.oblige("%s.pre[%s]" % (short, cl.label), g, meta={"kind": "refine_pre", "clause": cl.text, "props": c.props})
    # frame: every location the override may modify is one the base contract lets it modify
    sub_locs = calls.modifies_locations(I, st, c, env, c.modifies)
    base_locs = calls.modifies_locations(I, st, bc, env, bc.modifies)
    bykey = {}
    base_every = [v for v, keys in base_locs if isinstance(v, calls.Every)]
    for v, keys in base_locs:
        if isinstance(v, calls.Every):
            continue
        for key, _ in keys:
            bykey.setdefault(key, []).append(v.term)
    for v, keys in sub_locs:
        if isinstance(v, calls.Every):
            raise Unsupported("refinement with every()/owned() in the override's modifies")
        for key, _ in keys:
            cands = [v.term == b for b in bykey.get(key, [])]
            content = key == "$len" or key.startswith("$dom") or key.startswith("$val") or key.startswith("$items")
            for ev in base_every:
                if ev.only is not None and key not in ev.only:
                    continue
                cands.append(ev.covers_content(I, st, v.term) if content else ev.covers_object(st, v.term))
            g = z3.Or(*cands) if cands else FALSE
            st.oblige("%s.frame[%s]" % (short, key), g, meta={"kind": "refine_frame", "clause": "modifies of the override is within the base's",
                                                             "props": c.props})
    # outcome of the override, by its own contract
    pre_heap = dict(st.heap)
    pre_alloc = st.alloc
    calls.havoc_locations(I, st, sub_locs)
    exc_keys = list(c.raises.keys())
    k = st.choose(1 + len(exc_keys), "outcome")
    st.old_heap, st.old_alloc = pre_heap, pre_alloc
    if k == 0:
        res.outcomes["normal"] = res.outcomes.get("normal", 0) + 1
        rt = calls.return_type(I, st, fi, c, env.get("self"))
        if rt in (None, "NoneT"):
            result = NONE
        elif rt == "Any":
            result = Val("Any", st.fresh(RefS, "res"))
        else:
            result = st.fresh_val(rt, "res", assume_alloc=False, finite=False)
        env2 = dict(env)
        env2["result"] = result
        for cl in c.ensures:
            st.assume(specs.eval_clause(I, st, cl, env2, fi))
        if not st.feasible():
            raise PathEnd("override post infeasible")
        for cl in bc.ensures:
            g = specs.eval_clause(I, st, cl, env2, bfi)
            st.oblige("%s.post[%s]" % (short, cl.label), g, meta={"kind": "refine_post", "clause": cl.text, "props": c.props},
                      assume_after=False)
    else:
        key = exc_keys[k - 1]
        res.outcomes["raise:" + key] = res.outcomes.get("raise:" + key, 0) + 1
        for cl in c.raises[key]:
            st.assume(specs.eval_clause(I, st, cl, env, fi))
        if not st.feasible():
            raise PathEnd("override exceptional post infeasible")
        exc = ExcVal(key.rstrip("!"), key.endswith("!"))
        bkey = match_raises(I, bc, exc)
        if bkey is None:
            st.oblige("%s.raises[%s]" % (short, key), FALSE,
                      meta={"kind": "refine_raises", "clause": "the base contract does not allow %s" % key, "props": c.props},
                      assume_after=False)
        else:
            for cl in bc.raises[bkey]:
                g = specs.eval_clause(I, st, cl, env, bfi)
                st.oblige("%s.raises[%s][%s]" % (short, key, cl.label), g,
                          meta={"kind": "refine_raises", "clause": cl.text, "props": c.props}, assume_after=False)


def verify_refinement(I, c, fi, bc, bfi):
    res = FunctionResult(c.key + "<:" + bc.key)
    res.sha = fi.sha
    res.loc = fi.loc
    t0 = time.time()
    sink = []
    worklist = [[]]
    try:
        while worklist:
            trace = worklist.pop()
            st = State(trace=trace, sink=sink, worklist=worklist, label=res.key)
            try:
                run_refinement_path(I, st, c, fi, bc, bfi, res)
            except PathEnd:
                pass
            res.paths += 1
    except Unsupported as e:
        res.error = "unsupported: %s" % e
    except Exception as e:
        res.error = "crash: %s\n%s" % (e, traceback.format_exc())
    seen = {}
    for key, ob in sink:
        if key not in seen:
            seen[key] = ob
    res.obligations = list(seen.values())
    res.seconds = time.time() - t0
    res.str_axioms = I.str_distinct_axioms()
    return res
