"""Calls: repo functions (contract application or inlining), constructors, builtins, spec builtins."""
import ast
import z3

from .vtypes import (RefS, StrS, NULL, INF, EMPTY_STR, Val, NONE, REG, sort_of, is_ref, is_opt, strip_opt, FALSE, TRUE,
                    ty_str, mk_none)
from .state import (Frame, PathEnd, Unsupported, ReturnExc, RaiseExc, ExcVal)
from .repo import FuncInfo, ClassInfo, ModuleInfo
from . import prelude
from .interp import mkbool, mkint, mkreal, MAX_INLINE_DEPTH


# =======================================================================================
# annotations -> types
# =======================================================================================
def annotation_type(I, st, ann, module=None):
    if ann is None:
        return None
    module = module or st.frame.module
    if isinstance(ann, ast.Constant):
        if ann.value is None:
            return "NoneT"
        if isinstance(ann.value, str):
            try:
                return annotation_type(I, st, ast.parse(ann.value, mode="eval").body, module)
            except SyntaxError:
                return "Any"
        return "Any"
    txt = ast.unparse(ann)
    simple = {
        "Decimal": "Real", "decimal.Decimal": "Real", "int": "Int", "float": "Real", "str": "Str", "bool": "Bool",
        "datetime.datetime": "DT", "datetime.timedelta": "TD", "Any": "Any", "None": "NoneT", "object": "Any",
        "datetime": "DT", "timedelta": "TD", "dict": "Any", "bytes": "Str",
    }
    if txt in simple:
        return simple[txt]
    if txt in REG.aliases:
        return REG.parse(REG.aliases[txt])
    if isinstance(ann, ast.Subscript):
        head = ast.unparse(ann.value).split(".")[-1]
        args = ann.slice.elts if isinstance(ann.slice, ast.Tuple) else [ann.slice]
        if head == "Optional":
            t = annotation_type(I, st, args[0], module)
            return ("Opt", t) if t not in ("Any", None) else "Any"
        if head in ("Dict", "dict", "Mapping", "MutableMapping"):
            k = annotation_type(I, st, args[0], module)
            v = annotation_type(I, st, args[1], module)
            return REG.parse("Dict[%s,%s]" % (ty_str(k), ty_str(v)))
        if head in ("List", "list", "Sequence"):
            v = annotation_type(I, st, args[0], module)
            return REG.parse("List[%s]" % ty_str(v))
        if head in ("Set", "set"):
            v = annotation_type(I, st, args[0], module)
            return REG.parse("Set[%s]" % ty_str(v))
        if head in ("Tuple", "tuple"):
            return ("Tuple", tuple(annotation_type(I, st, a, module) for a in args))
        if head in ("Callable", "Awaitable", "Coroutine"):
            return "Fun"
        if head in ("Iterable", "Generator", "Iterator"):
            return "Any"
        if head in ("Union",):
            return "Any"
        # Generic[...] instantiation of a repo class
        return annotation_type(I, st, ann.value, module)
    if isinstance(ann, (ast.Name, ast.Attribute)):
        r = I.repo.resolve(module, ann)
        if isinstance(r, ClassInfo):
            if r.qualname in REG.by_qualname:
                return ("Ref", REG.by_qualname[r.qualname].name)
            if r.qualname in REG.enum_qual:
                return ("Enum", REG.enum_qual[r.qualname])
            if r.qualname in REG.val_qual:
                return ("Val", REG.val_qual[r.qualname])
            return "Any"
        if isinstance(r, tuple) and r[0] == "global":
            return annotation_type(I, st, r[1].globals[r[2]], r[1])
        if isinstance(r, tuple) and r[0] == "external":
            tail = r[1].split(".")[-1]
            if tail == "Decimal":
                return "Real"
            if tail in ("datetime",):
                return "DT"
            if tail in ("timedelta",):
                return "TD"
    return "Any"


# =======================================================================================
# call evaluation
# =======================================================================================
def eval_call(I, st, node):
    f = node.func
    # ---- syntactic special forms -------------------------------------------------------
    if isinstance(f, ast.Name):
        if st.spec_depth > 0 and f.id == "ifdef":
            # ifdef('name', clause): the clause only applies to code shapes that have a local of that name
            nm = node.args[0].value
            try:
                I.eval(st, ast.Name(id=nm, ctx=ast.Load()))
            except Unsupported:
                return Val("Bool", TRUE)
            return I.eval(st, node.args[1])
        if st.spec_depth > 0 and f.id in ("old", "forall", "exists", "let", "at_suspend", "ENTRY"):
            return spec_special(I, st, f.id, node)
        if f.id == "cast" and len(node.args) == 2:
            return I.eval(st, node.args[1])
    if isinstance(f, ast.Attribute) and isinstance(f.value, ast.Name) and f.value.id == "logger":
        I.drops.add("logger.%s(...) call" % f.attr)
        return NONE
    if isinstance(f, ast.Attribute) and isinstance(f.value, ast.Call) and isinstance(f.value.func, ast.Name) \
            and f.value.func.id == "super":
        return call_super(I, st, node)
    if isinstance(f, ast.Attribute) and ast.unparse(f) in ("logs.StructuredMessage", "StructuredMessage"):
        I.drops.add("logs.StructuredMessage(...) construction")
        return Val("Any", st.fresh(RefS, "smsg"))
    if isinstance(f, ast.Attribute) and ast.unparse(f) in ("helpers.deprecation_warning", "warnings.warn"):
        I.drops.add("deprecation warning")
        return NONE
    if isinstance(f, ast.Name) and st.spec_depth > 0 and f.id in ("typeis", "mkval", "clock", "field_unchanged", "unchanged_except"):
        # string literals naming a class / field are not program strings: keep them out of the Str constant pool
        fv = I.eval(st, f)
        args = [Val("Str", None) if (isinstance(a, ast.Constant) and isinstance(a.value, str)) else I.eval(st, a) for a in node.args]
        return call_value(I, st, fv, args, {}, node)
    fv = I.eval(st, f)
    # Decimal(f"1e-{precision}")
    if fv.ty == "Type" and fv.term[0] == "external" and fv.term[1].endswith("Decimal") and len(node.args) == 1 \
            and isinstance(node.args[0], ast.JoinedStr):
        js = node.args[0]
        if len(js.values) == 2 and isinstance(js.values[0], ast.Constant) and js.values[0].value == "1e-" \
                and isinstance(js.values[1], ast.FormattedValue):
            p = I.eval(st, js.values[1].value)
            return Val("Real", prelude.unit(p.term), extra=("unit", p.term))
        raise Unsupported("Decimal(f-string)")
    args = []
    for a in node.args:
        if isinstance(a, ast.Starred):
            v = I.eval(st, a.value)
            args.append(("star", v))
        else:
            args.append(I.eval(st, a))
    kwargs = {}
    for kw in node.keywords:
        if kw.arg is None:
            raise Unsupported("**kwargs call at line %s" % node.lineno)
        kwargs[kw.arg] = I.eval(st, kw.value)
    return call_value(I, st, fv, args, kwargs, node)


def call_value(I, st, fv, args, kwargs, node):
    if fv.ty == "Fun" and z3.is_expr(fv.term):
        from . import asyncio_model
        return asyncio_model.call_opaque(I, st, fv, args, kwargs, node)
    if fv.ty == "Fun":
        kind = fv.term[0]
        if kind == "func":
            return call_repo(I, st, fv.term[1], args, kwargs, node)
        if kind == "bound":
            return call_repo(I, st, fv.term[1], [fv.term[2]] + args, kwargs, node)
        if kind == "builtin":
            from . import builtins_model
            return builtins_model.call_builtin(I, st, fv.term[1], args, kwargs, node)
        if kind == "builtin_method":
            from . import builtins_model
            return builtins_model.call_method(I, st, fv.term[1], fv.term[2], args, kwargs, node)
        if kind in ("lambda", "closure"):
            return call_closure(I, st, fv, args, kwargs, node)
        if kind == "specfun":
            return call_specfun(I, st, fv.term[1], args, node)
        if kind == "specbuiltin":
            from . import specs
            return specs.spec_builtin(I, st, fv.term[1], args, kwargs, node)
        if kind in ("opaque", "opaque_field", "opaque_attr"):
            from . import asyncio_model
            return asyncio_model.call_opaque(I, st, fv, args, kwargs, node)
        raise Unsupported("call of %s" % kind)
    if fv.ty == "Type":
        kind = fv.term[0]
        if kind == "class":
            return construct(I, st, fv.term[1], args, kwargs, node)
        if kind == "exc":
            return Val("Exc", st.fresh(RefS, "exc"), extra=ExcVal(fv.term[1], True))
        if kind == "external":
            from . import builtins_model
            return builtins_model.call_external(I, st, fv.term[1], args, kwargs, node)
        if kind == "enum":
            raise Unsupported("enum constructor call")
        if kind == "regclass":
            return construct_registered(I, st, fv.term[1], args, kwargs, node)
    raise Unsupported("call of value %s (line %s)" % (ty_str(fv.ty), getattr(node, "lineno", "?")))


def call_super(I, st, node):
    meth = node.func.attr
    fr = st.frame
    fi = fr.func
    if fi is None or fi.cls is None:
        raise Unsupported("super() outside method")
    target = None
    for c in fi.cls.mro()[1:]:
        if meth in c.methods:
            target = c.methods[meth]
            break
    args = [I.eval(st, a) for a in node.args]
    kwargs = {kw.arg: I.eval(st, kw.value) for kw in node.keywords}
    selfv = fr.vars.get("self")
    if target is None:
        if meth == "__init__":
            return NONE
        raise Unsupported("super().%s not found" % meth)
    return call_repo(I, st, target, [selfv] + args, kwargs, node, static=True)


def call_closure(I, st, fv, args, kwargs, node):
    kind, fnode, parent = fv.term
    fr = Frame(parent.func, parent.module, parent=parent)
    fr.spec_env = parent.spec_env
    a = fnode.args
    names = [x.arg for x in a.args]
    defaults = a.defaults
    for i, nm in enumerate(names):
        if i < len(args):
            fr.vars[nm] = args[i]
        elif nm in kwargs:
            fr.vars[nm] = kwargs[nm]
        else:
            di = i - (len(names) - len(defaults))
            if di < 0:
                raise Unsupported("missing closure arg")
            st.frames.append(Frame(parent.func, parent.module, parent=parent))
            try:
                fr.vars[nm] = I.eval(st, defaults[di])
            finally:
                st.frames.pop()
    st.frames.append(fr)
    try:
        if kind == "lambda":
            return I.eval(st, fnode.body)
        try:
            I.exec_block(st, fnode.body)
        except ReturnExc as r:
            return r.value
        return NONE
    finally:
        st.frames.pop()


def call_specfun(I, st, name, args, node):
    sf = I.db.specfuns[name]
    if len(args) != len(sf.params):
        raise Unsupported("specfun %s arity" % name)
    fr = Frame(None, None)
    for p, a in zip(sf.params, args):
        fr.vars[p] = a
    st.frames.append(fr)
    st.spec_depth += 1
    try:
        return I.eval(st, sf.node)
    finally:
        st.spec_depth -= 1
        st.frames.pop()


# =======================================================================================
# spec special forms
# =======================================================================================
def spec_special(I, st, name, node):
    if name == "old":
        prev = st.in_old
        st.in_old = True
        try:
            return I.eval(st, node.args[0])
        finally:
            st.in_old = prev
    if name == "at_suspend":
        if st.suspend_heap is None:
            return I.eval(st, node.args[0])     # no suspension happened on this path: the current state
        saved = (st.heap, st.ghost)
        st.heap, st.ghost = dict(st.suspend_heap), dict(st.suspend_ghost)
        try:
            return I.eval(st, node.args[0])
        finally:
            st.heap, st.ghost = saved
    if name == "ENTRY":
        env = st.frame.spec_env or {}
        f = st.frame
        while f is not None and "__entry_heap" not in (f.spec_env or {}):
            f = f.parent
        if f is None:
            raise Unsupported("ENTRY() outside a loop invariant")
        saved = st.heap
        st.heap = dict(f.spec_env["__entry_heap"])
        fr = Frame(st.frame.func, st.frame.module, parent=st.frame)
        fr.spec_env = dict(f.spec_env["__entry_env"])
        fr.vars = dict(f.spec_env["__entry_env"])
        st.frames.append(fr)
        try:
            return I.eval(st, node.args[0])
        finally:
            st.frames.pop()
            st.heap = saved
    if name in ("forall", "exists"):
        lam = node.args[0]
        if not isinstance(lam, ast.Lambda):
            raise Unsupported("%s needs a lambda" % name)
        fr = Frame(st.frame.func, st.frame.module, parent=st.frame)
        fr.spec_env = st.frame.spec_env
        bound = []
        names = [a.arg for a in lam.args.args]
        defaults = lam.args.defaults
        if len(defaults) != len(names):
            raise Unsupported("quantifier variables need sorts as defaults: forall(lambda s=Str: ...)")
        side = []
        skolem = name == "exists" and getattr(st, "assumed_toplevel", None) is node
        for nm, d in zip(names, defaults):
            tname = ast.unparse(d)
            if not REG.has(tname) and tname not in ("Int", "Real", "Str", "Bool", "DT", "TD"):
                sv = (st.frame.spec_env or {}).get("self")
                if sv is not None and is_ref(strip_opt(sv.ty)):
                    tname = REG.get(strip_opt(sv.ty)[1]).all_params(REG).get(tname, tname)
            ty = REG.parse(tname)
            c = z3.FreshConst(sort_of(strip_opt(ty)), nm) if not skolem else st.fresh(sort_of(strip_opt(ty)), "sk_" + nm)
            if not skolem:
                bound.append(c)
            v = Val(strip_opt(ty), c)
            fr.vars[nm] = v
            if skolem and is_ref(strip_opt(ty)):
                # the witness may be an object allocated by the callee: typed, not necessarily allocated before
                side.append(z3.And(c != NULL, st.cls_is(c, strip_opt(ty)[1])))
            elif is_ref(strip_opt(ty)):
                # quantification over objects ranges over allocated objects of that class
                side.append(z3.And(c != NULL, st.alloc[c] if not st.in_old else st.alloc0[c], st.cls_is(c, strip_opt(ty)[1])))
        st.frames.append(fr)
        st.spec_side.append([])
        st.bound_stack.extend(bound)
        try:
            body = I.truthy(st, I.eval(st, lam.body))
        finally:
            st.frames.pop()
            facts = st.spec_side.pop()
            del st.bound_stack[len(st.bound_stack) - len(bound):]
        # typing facts about values read in the body are heap invariants: universally closed over the bound variables
        from .solve import mentions
        for f in facts:
            if mentions(f, bound):
                f = z3.ForAll(bound, f)
            if st.spec_side:
                st.spec_side[-1].append(f)
            else:
                st.assume(f)
        if name == "forall":
            if side:
                body = z3.Implies(z3.And(*side), body)
            return mkbool(z3.ForAll(bound, body))
        if side:
            body = z3.And(*side, body)
        if skolem:
            return mkbool(body)
        return mkbool(z3.Exists(bound, body))
    if name == "let":
        # let(lambda x=expr: body)
        lam = node.args[0]
        fr = Frame(st.frame.func, st.frame.module, parent=st.frame)
        fr.spec_env = st.frame.spec_env
        for a, d in zip(lam.args.args, lam.args.defaults):
            fr.vars[a.arg] = I.eval(st, d)
        st.frames.append(fr)
        try:
            return I.eval(st, lam.body)
        finally:
            st.frames.pop()
    raise Unsupported(name)


# =======================================================================================
# repo function calls
# =======================================================================================
def bind_args(I, st, fi, args, kwargs, node, contract=None):
    a = fi.node.args
    if a.vararg or a.kwarg:
        raise Unsupported("*args/**kwargs in %s" % fi.qualname)
    params = [x for x in a.posonlyargs + a.args]
    names = [p.arg for p in params]
    out = {}
    if any(isinstance(x, tuple) and x[0] == "star" for x in args):
        raise Unsupported("star-args call to %s" % fi.qualname)
    if len(args) > len(names):
        raise Unsupported("too many args for %s" % fi.qualname)
    for i, v in enumerate(args):
        out[names[i]] = v
    for k, v in kwargs.items():
        if k in names or k in [x.arg for x in a.kwonlyargs]:
            out[k] = v
        else:
            raise Unsupported("unexpected kwarg %s for %s" % (k, fi.qualname))
    defaults = a.defaults
    for i, nm in enumerate(names):
        if nm not in out:
            di = i - (len(names) - len(defaults))
            if di < 0:
                raise Unsupported("missing argument %s for %s" % (nm, fi.qualname))
            out[nm] = eval_default(I, st, fi, defaults[di])
    for p, d in zip(a.kwonlyargs, a.kw_defaults):
        if p.arg not in out:
            if d is None:
                raise Unsupported("missing kwonly %s" % p.arg)
            out[p.arg] = eval_default(I, st, fi, d)
        params.append(p)
    # coerce to declared types (materialise `{}` literals, Int->Real)
    st._bind_self = out.get("self")
    for p in params:
        ty = param_type(I, st, fi, p, contract)
        v = out[p.arg]
        if ty is not None and ty != "Any":
            out[p.arg] = adapt(I, st, v, ty)
    return out


def adapt(I, st, v, ty):
    base = strip_opt(ty)
    if v.extra and v.extra[0] in ("emptydict", "emptylist", "emptyset") and v.term is None:
        if is_ref(base):
            kd = REG.get(base[1])
            return I.new_list(st, base[1]) if kd.kind == "list" else I.new_dict(st, base[1])
        return I.new_dict(st, "Dict[Str,Real]")
    if v.ty == "NoneT":
        return mk_none(base) if base != "Any" else v
    vb = strip_opt(v.ty)
    if base == "Real" and vb in ("Int", "Bool"):
        return I.coerce(st, v, ty)
    return v


def eval_default(I, st, fi, expr):
    fr = Frame(fi, fi.module)
    st.frames.append(fr)
    try:
        return I.eval(st, expr)
    finally:
        st.frames.pop()


def param_type(I, st, fi, p, contract=None):
    c = contract or I.db.get(fi.qualname)
    if c is not None and p.arg in c.types:
        t = c.types[p.arg]
        if "$" in t:
            sv = getattr(st, "_bind_self", None)
            t = subst_params(t, sv)
            if "$" in t:
                kd0 = REG.by_qualname.get(fi.cls.qualname) if fi.cls is not None else None
                for pp, tt in (kd0.all_params(REG) if kd0 else {}).items():
                    t = t.replace("$" + pp, tt)
        return REG.parse(t)
    if p.arg == "self" and fi.cls is not None:
        if c is not None and c.self_type:
            return REG.parse(c.self_type)
        if fi.cls.qualname in REG.by_qualname:
            return ("Ref", REG.by_qualname[fi.cls.qualname].name)
        return "Any"
    return annotation_type(I, st, p.annotation, fi.module)


def subst_params(tystr, selfv):
    if "$" in tystr and selfv is not None and is_ref(strip_opt(selfv.ty)):
        for p, t in REG.get(strip_opt(selfv.ty)[1]).all_params(REG).items():
            tystr = tystr.replace("$" + p, t)
    return tystr


def return_type(I, st, fi, contract=None, selfv=None):
    c = contract or I.db.get(fi.qualname)
    if c is not None and c.returns:
        return REG.parse(subst_params(c.returns, selfv))
    t = annotation_type(I, st, fi.node.returns, fi.module)
    return t


def overriders(I, static_cls, fi):
    """registered subclasses of static_cls whose repo class resolves `fi.name` to a different function"""
    out = []
    for sub in REG.subclass_names(static_cls):
        if sub == static_cls:
            continue
        f2 = I.find_method(sub, fi.name)
        if f2 is not None and f2 is not fi:
            out.append((sub, f2))
    return out


def call_repo(I, st, fi, args, kwargs, node, is_property=False, static=False):
    if fi.qualname == "basana.core.dispatcher.gather_no_raise":
        # TRUSTED model of the two-line helper: asyncio.gather over await_no_raise(x) -- every awaitable is awaited, an
        # Exception of one of them is logged and swallowed (helpers.no_raise), only cancellation propagates
        I.drops.add("gather_no_raise(*xs) modelled as asyncio.gather(*xs) with every child's Exception swallowed (trusted)")
        return Val("Awaitable", ("gather", list(args), Val("Bool", TRUE)))
    if fi.qualname == "basana.core.dt.utc_now":
        # trusted: the wall clock, read through the monotone ghost clock (assumption: it never goes backwards)
        from . import asyncio_model
        I.drops.add("dt.utc_now() read as a monotone ghost clock")
        return asyncio_model.clock_read(I, st, "utc")
    # ---- dynamic dispatch ---------------------------------------------------------------
    if fi.cls is not None and args and not static and not fi.is_static:
        recv = args[0]
        base = strip_opt(recv.ty) if not (isinstance(recv, tuple)) else None
        if base is not None and is_ref(base):
            ovs = overriders(I, base[1], fi)
            c0 = I.db.get(fi.qualname)
            if ovs and not (c0 is not None and c0.abstract):
                if st.spec_depth > 0:
                    raise Unsupported("dynamic dispatch of %s in a spec" % fi.name)
                # fork on the dynamic class
                groups = {}
                for sub, f2 in ovs:
                    groups.setdefault(f2.qualname, (f2, []))[1].append(sub)
                alts = [(fi, None)] + [(f2, subs) for f2, subs in groups.values()]
                if fi.is_abstract:
                    alts = alts[1:]
                i = st.choose(len(alts), "dispatch")
                f2, subs = alts[i]
                if subs is None:
                    allsubs = [s for _, ss in groups.values() for s in ss]
                    for s in allsubs:
                        st.assume(z3.Not(st.cls_is(recv.term, s)))
                else:
                    st.assume(z3.Or(*[st.cls_is(recv.term, s) for s in subs]))
                    # refine the static type of the receiver
                    narrowed = subs[0] if len(subs) == 1 else base[1]
                    if len(subs) > 1 and f2.cls is not None and f2.cls.qualname in REG.by_qualname:
                        decl = REG.by_qualname[f2.cls.qualname].name
                        if all(REG.is_sub(s_, decl) for s_ in subs):
                            narrowed = decl
                    args = [Val(("Ref", narrowed), recv.term, recv.none)] + list(args[1:])
                if not st.feasible():
                    raise PathEnd("dispatch infeasible")
                fi = f2
    c = I.db.get(fi.qualname)
    if fi.is_generator and not fi.is_ctxmgr:
        argmap = bind_args(I, st, fi, args, kwargs, node, c)
        return Val("Gen", (fi, argmap))
    if fi.is_ctxmgr:
        # (also @asynccontextmanager: an async generator used in `async with`)
        argmap = bind_args(I, st, fi, args, kwargs, node, c)
        return Val("CtxMgr", (fi, argmap))
    if fi.is_async:
        argmap = bind_args(I, st, fi, args, kwargs, node, c)
        if c is not None and c.requires and not c.inline and st.spec_depth == 0 and st.frame.func is not None:
            # a coroutine handed to a task pool / gather starts later: its precondition is demanded where it is created
            # (and must be stable under the rely, which is the contract author's obligation -- see DESIGN)
            from . import specs
            site = "%s.spawn[%s#%d]" % (I.short(st.frame.func), fi.name, call_ordinal(I, st, node, fi.name))
            for cl in c.requires:
                g = specs.eval_clause(I, st, cl, dict(argmap), fi)
                st.oblige("%s.pre[%s]" % (site, cl.label), g, meta={"kind": "call_pre", "callee": fi.qualname, "clause": cl.text,
                                                                   "line": getattr(node, "lineno", None)})
        return Val("Coro", (fi, argmap))
    if fi.is_ctxmgr:
        argmap = bind_args(I, st, fi, args, kwargs, node, c)
        return Val("CtxMgr", (fi, argmap))
    return invoke(I, st, fi, args, kwargs, node, c, is_property)


def invoke(I, st, fi, args, kwargs, node, c=None, is_property=False, argmap=None):
    if c is None:
        c = I.db.get(fi.qualname)
    if argmap is None:
        argmap = bind_args(I, st, fi, args, kwargs, node, c)
    use_contract = c is not None and not c.inline
    if I.current_target is not None and I.current_target == fi.qualname and st.depth == 0:
        use_contract = False
    if st.spec_depth > 0:
        # specs may only call pure single-expression functions: they are inlined in spec mode
        return spec_inline(I, st, fi, argmap, node)
    if use_contract:
        I.used_contracts.add(c.key)
        return apply_contract(I, st, c, fi, argmap, node)
    return inline_call(I, st, fi, argmap, node)


def spec_inline(I, st, fi, argmap, node):
    body = [s for s in fi.node.body if not (isinstance(s, ast.Expr) and isinstance(s.value, ast.Constant))]
    if len(body) == 1 and isinstance(body[0], ast.Return) and body[0].value is not None:
        fr = Frame(fi, fi.module)
        fr.vars.update(argmap)
        st.frames.append(fr)
        try:
            return I.eval(st, body[0].value)
        finally:
            st.frames.pop()
    raise Unsupported("spec calls %s which is not a single-return function" % fi.qualname)


def inline_call(I, st, fi, argmap, node):
    if st.depth >= MAX_INLINE_DEPTH:
        raise Unsupported("inline depth exceeded at %s" % fi.qualname)
    if fi.is_abstract:
        raise Unsupported("call of abstract %s without a base contract" % fi.qualname)
    I.inlined.add(fi.qualname)
    fr = Frame(fi, fi.module)
    fr.vars.update(argmap)
    st.frames.append(fr)
    st.depth += 1
    try:
        try:
            I.exec_block(st, fi.node.body)
        except ReturnExc as r:
            return finish_return(I, st, fi, r.value)
        return NONE
    finally:
        st.depth -= 1
        st.frames.pop()


def finish_return(I, st, fi, v):
    rt = return_type(I, st, fi)
    if rt is not None and rt not in ("Any", "NoneT"):
        return adapt(I, st, v, rt)
    return v


def call_ordinal(I, st, node, callee_name):
    fr = st.frame
    fi = fr.func
    if fi is None or node is None:
        return 0
    key = fi.qualname
    tab = I.call_ordinals.get(key)
    if tab is None:
        tab = {}
        counts = {}
        for n in ast.walk(fi.node):
            if isinstance(n, (ast.Call, ast.Attribute, ast.BinOp, ast.AugAssign, ast.Subscript, ast.Compare)):
                nm = type(n).__name__
                if isinstance(n, ast.Call):
                    nm = ast.unparse(n.func).split(".")[-1]
                elif isinstance(n, ast.Attribute):
                    nm = n.attr
                k = counts.get(nm, 0)
                counts[nm] = k + 1
                tab[id(n)] = k
        I.call_ordinals[key] = tab
    return tab.get(id(node), 0)


def loc_guard(I, st, node, env):
    """a modifies location that goes through a dict subscript only exists when the key is present"""
    from . import specs
    conj = []
    for n in ast.walk(node):
        if isinstance(n, ast.Subscript):
            try:
                d = specs.eval_spec(I, st, n.value, env)
                k = specs.eval_spec(I, st, n.slice, env)
                base = strip_opt(d.ty)
                if is_ref(base) and REG.get(base[1]).kind == "dict":
                    conj.append(z3.Select(I.dom_of(st, d), I.key_term(st, REG.get(base[1]), k)))
            except Unsupported:
                pass
    return z3.And(*conj) if conj else None


def modifies_locations(I, st, c, env, mod_nodes):
    """evaluate modifies expressions -> list of (ref Val, [(key, sort)]); the Val's `none` flag also covers a location
    whose dict-subscript path does not exist"""
    from . import specs
    out = []
    for mn in mod_nodes:
        n_before = len(out)
        _modifies_one(I, st, env, mn, out)
        g = loc_guard(I, st, mn, env)
        if g is not None:
            for idx in range(n_before, len(out)):
                v, keys = out[idx]
                out[idx] = (Val(v.ty, v.term, z3.Or(v.none, z3.Not(g))), keys)
    return out


class Every:
    """modifies entry `every(Cls)`: all objects of class Cls (and the containers they own through their fields)"""

    def __init__(self, cls, only=None):
        self.cls = cls
        self.only = only          # restrict to these heap keys (every(Cls, 'field'))
        self.none = FALSE
        self.term = None
        self.ty = ("Ref", cls)

    obj = None      # owned(x): restricted to the single object x and the containers it owns

    def covers_object(self, st, o):
        if self.obj is not None:
            return o == self.obj
        return st.cls_is(o, self.cls)

    def covers_content(self, I, st, r):
        if self.obj is not None:
            return z3.And(prelude.owner_obj(r) == self.obj, self._covers_content(I, st, r))
        return self._covers_content(I, st, r)

    def _covers_content(self, I, st, r):
        if REG.get(self.cls).kind != "object":
            return st.cls_is(r, self.cls)        # every(ValueMap): the containers themselves
        fids = []
        for n in set(REG.subclass_names(self.cls)) | {self.cls}:
            for attr, fty in REG.get(n).all_fields(REG).items():
                b = strip_opt(fty)
                if is_ref(b) and REG.get(b[1]).kind != "object":
                    # the container stored in field `attr` has the field's declared container class (typed heap)
                    fids.append(z3.And(prelude.owner_fld(r) == prelude.field_id(attr), st.cls_is(r, b[1])))
        if not fids:
            return FALSE
        return z3.And(st.cls_is(prelude.owner_obj(r), self.cls), z3.Or(*fids))


def _modifies_one(I, st, env, mn, out):
    from . import specs
    if isinstance(mn, ast.Call) and isinstance(mn.func, ast.Name) and mn.func.id == "every":
        cls = ast.unparse(mn.args[0])
        keys = I.object_keys(cls)
        if len(mn.args) > 1:
            want = set()
            for a in mn.args[1:]:
                fty = I.field_type(cls, a.value)
                want.add(I.field_key(a.value, fty))
            keys = [(k, s_) for k, s_ in keys if k in want]
            out.append((Every(cls, only=want), keys))
            return
        out.append((Every(cls), keys))
        return
    if isinstance(mn, ast.Call) and isinstance(mn.func, ast.Name) and mn.func.id == "owned":
        v = specs.eval_spec(I, st, mn.args[0], env)
        cls = strip_opt(v.ty)[1]
        ev = Every(cls)
        ev.obj = v.term
        out.append((ev, I.object_keys(cls)))
        return
    if True:
        if isinstance(mn, ast.Call) and isinstance(mn.func, ast.Name) and mn.func.id == "content":
            v = specs.eval_spec(I, st, mn.args[0], env)
            if v.ty == "NoneT":
                return
            kd = I.kd_of(v)
            out.append((v, I.content_keys(kd)))
        elif isinstance(mn, ast.Attribute) and not (isinstance(mn.value, ast.Name) and False):
            # obj.field : a single location -- unless obj.field itself names an object to be modified wholly,
            # which is written all(obj.field)
            o = specs.eval_spec(I, st, mn.value, env)
            base = strip_opt(o.ty)
            if not is_ref(base):
                raise Unsupported("modifies %s" % ast.unparse(mn))
            fty = I.field_type(base[1], mn.attr)
            if fty is None:
                raise Unsupported("modifies: unknown field %s" % ast.unparse(mn))
            b = strip_opt(fty)
            keys = []
            if isinstance(b, tuple) and b[0] == "MSet":
                keys = [("%s#mset_%s" % (mn.attr, sort_of(b[1])), z3.ArraySort(sort_of(b[1]), z3.BoolSort()))]
            elif isinstance(b, tuple) and b[0] == "MMap":
                keys = [("%s#mmapd_%s" % (mn.attr, sort_of(b[1])), z3.ArraySort(sort_of(b[1]), z3.BoolSort())),
                        ("%s#mmapv_%s_%s" % (mn.attr, sort_of(b[1]), sort_of(b[2])),
                         z3.ArraySort(sort_of(b[1]), sort_of(b[2])))]
            elif b != "Fun":
                keys = [(I.field_key(mn.attr, fty), sort_of(b))]
                if is_opt(fty) and not (is_ref(b) or b in ("Any", "Exc")):
                    keys.append((mn.attr + "#none", z3.BoolSort()))
            out.append((o, keys))
        else:
            node_ = mn
            if isinstance(mn, ast.Call) and isinstance(mn.func, ast.Name) and mn.func.id == "all":
                node_ = mn.args[0]
            v = specs.eval_spec(I, st, node_, env)
            if v.ty == "NoneT":
                return
            base = strip_opt(v.ty)
            if not is_ref(base):
                raise Unsupported("modifies %s: not an object" % ast.unparse(mn))
            out.append((v, I.object_keys(base[1])))


def havoc_locations(I, st, locs):
    for v, keys in locs:
        if isinstance(v, Every):
            okeys = {k for k, _ in I.object_keys(v.cls)}
            ckeys = set()
            for n in set(REG.subclass_names(v.cls)) | {v.cls}:
                ckeys |= {k for k, _ in I.content_keys(REG.get(n))}
            for key, sort in keys:
                arr = st.hget(key, sort)
                new = st.fresh(arr.sort(), "hvall")
                o = z3.FreshConst(RefS, "o")
                if key in ("$len",) or key.startswith("$dom") or key.startswith("$val") or key.startswith("$items"):
                    cond = v.covers_content(I, st, o)
                else:
                    cond = v.covers_object(st, o)
                st.assume(z3.ForAll([o], z3.Or(cond, z3.Select(new, o) == z3.Select(arr, o))))
                st.hset(key, new)
            # containers owned by such objects
            for n in (set(REG.subclass_names(v.cls)) | {v.cls}) if v.only is None else ():
                for attr, fty in REG.get(n).all_fields(REG).items():
                    b = strip_opt(fty)
                    if is_ref(b) and REG.get(b[1]).kind != "object":
                        for key, sort in I.content_keys(REG.get(b[1])):
                            if any(key == k2 for k2, _ in keys):
                                continue
                            arr = st.hget(key, sort)
                            new = st.fresh(arr.sort(), "hvall")
                            o = z3.FreshConst(RefS, "o")
                            st.assume(z3.ForAll([o], z3.Or(v.covers_content(I, st, o), z3.Select(new, o) == z3.Select(arr, o))))
                            st.hset(key, new)
                            keys = keys + [(key, sort)]
            continue
        for key, sort in keys:
            arr = st.hget(key, sort)
            if not z3.is_false(v.none):
                newv = z3.If(v.none, z3.Select(arr, v.term), st.fresh(sort, "hv"))
            else:
                newv = st.fresh(sort, "hv")
            st.hset(key, z3.Store(arr, v.term, newv))


def apply_contract(I, st, c, fi, argmap, node):
    from . import specs
    caller = st.frame.func.qualname.split(".", 1)[-1] if st.frame.func is not None else "<top>"
    short = fi.qualname.split(".")[-2] + "." + fi.name if fi.cls is not None else fi.name
    ordn = call_ordinal(I, st, node, fi.name)
    site = "%s.call[%s#%d]" % (I.short(st.frame.func) if st.frame.func else "<top>", short, ordn)
    env = dict(argmap)
    # --- site assertions of the function under verification (sidecar `site_pre`) ---------
    cc = I.current_contract
    if cc is not None and cc.site_pre and st.frame.func is not None and st.frame.func.qualname == I.current_target:
        from . import loops as _loops
        for cl in cc.site_pre.get("%s#%d" % (fi.name, ordn), []):
            g = specs.eval_clause(I, st, cl, _loops.spec_env(I, st, {}), st.frame.func)
            st.oblige("%s.assert[%s]" % (site, cl.label), g, meta={"kind": "site_assert", "clause": cl.text, "props": cl.props,
                                                                  "line": getattr(node, "lineno", None)})
    # --- preconditions -------------------------------------------------------------------
    for cl in c.requires:
        g = specs.eval_clause(I, st, cl, env, fi)
        st.oblige("%s.pre[%s]" % (site, cl.label), g, meta={"kind": "call_pre", "callee": fi.qualname, "clause": cl.text,
                                                           "line": getattr(node, "lineno", None)})
    # --- frame: havoc the modifies locations ----------------------------------------------
    pre_heap = dict(st.heap)
    pre_alloc = st.alloc
    locs = modifies_locations(I, st, c, env, c.modifies)
    havoc_locations(I, st, locs)
    # --- outcome --------------------------------------------------------------------------
    exc_keys = list(c.raises.keys())
    k = st.choose(1 + len(exc_keys), "outcome of %s" % short)
    st.trail.append("%s:%s" % (short, "ok" if k == 0 else exc_keys[k - 1].rstrip("!")))
    saved = (st.old_heap, st.old_alloc)
    st.old_heap, st.old_alloc = pre_heap, pre_alloc
    st.spec_assume_alloc = False      # assumed postconditions may introduce objects the callee allocated
    try:
        if k == 0:
            rt = return_type(I, st, fi, c, argmap.get("self"))
            if rt in (None, "NoneT"):
                res = NONE
            elif rt == "Any":
                res = Val("Any", st.fresh(RefS, "res"))
            else:
                res = st.fresh_val(rt, "res_" + fi.name, assume_alloc=False, finite=False)
            env["result"] = res
            for cl in c.ensures:
                g = specs.eval_clause(I, st, cl, env, fi, allow_effects=True)
                st.assume(g)
            if is_ref(strip_opt(res.ty)) and res.term is not None:
                st.assume(z3.Or(res.term == NULL, z3.Select(st.alloc, res.term)))
            if not st.feasible():
                raise PathEnd("contract post infeasible")
            return res
        key = exc_keys[k - 1]
        for cl in c.raises[key]:
            g = specs.eval_clause(I, st, cl, env, fi, allow_effects=True)
            st.assume(g)
        if not st.feasible():
            raise PathEnd("contract exceptional post infeasible")
        exact = key.endswith("!")
        raise RaiseExc(ExcVal(key.rstrip("!"), exact), where=getattr(node, "lineno", None))
    finally:
        st.old_heap, st.old_alloc = saved
        st.spec_assume_alloc = True


# =======================================================================================
# constructors
# =======================================================================================
def dataclass_fields(ci):
    """ordered (name, default expr or None) of a dataclass (including inherited)"""
    out = []
    for c in reversed(ci.mro()):
        for sub in c.node.body:
            if isinstance(sub, ast.AnnAssign) and isinstance(sub.target, ast.Name):
                out = [x for x in out if x[0] != sub.target.id]
                out.append((sub.target.id, sub.value))
    return out


def is_dataclass(ci):
    return any("dataclass" in ast.unparse(d) for d in ci.node.decorator_list)


def construct(I, st, ci, args, kwargs, node):
    # exceptions
    if ci.name in I.exc_parent:
        return Val("Exc", st.fresh(RefS, "exc"), extra=ExcVal(ci.name, True))
    # value datatypes (frozen dataclasses declared with REG.val)
    if ci.qualname in REG.val_qual:
        name = REG.val_qual[ci.qualname]
        dt, fields = REG.vals[name]
        vals = list(args)
        for f, fty in fields[len(vals):]:
            if f not in kwargs:
                raise Unsupported("missing field %s for %s" % (f, name))
            vals.append(kwargs[f])
        terms = [I.coerce(st, v, fty).term for v, (f, fty) in zip(vals, fields)]
        return Val(("Val", name), dt.constructor(0)(*terms))
    if ci.qualname not in REG.by_qualname:
        raise Unsupported("construction of unregistered class %s (line %s)" % (ci.qualname, getattr(node, "lineno", "?")))
    kd = REG.by_qualname[ci.qualname]
    # dict subclasses: ValueMap(x) copies x
    if kd.kind == "dict" and ci.find_method("__init__") is None:
        return construct_dict(I, st, kd.name, args, node)
    init = ci.find_method("__init__")
    o = st.allocate(kd.name, kd.name.lower())
    for key, sort in I.content_keys(kd):
        pass
    if kd.kind in ("dict", "set"):
        I.set_dom(st, o, z3.K(sort_of(kd.K), FALSE))
    if kd.kind == "list":
        I.set_list(st, o, z3.IntVal(0), st.fresh(z3.ArraySort(z3.IntSort(), sort_of(strip_opt(kd.V))), "items0"))
    if init is not None:
        c = I.db.get(init.qualname)
        invoke(I, st, init, [o] + list(args), kwargs, node, c)
        return o
    if is_dataclass(ci):
        fields = dataclass_fields(ci)
        given = {}
        for (f, d), v in zip(fields, args):
            given[f] = v
        given.update(kwargs)
        for f, d in fields:
            fty = I.field_type(kd.name, f)
            if fty is None:
                raise Unsupported("dataclass field %s.%s not declared in registry" % (kd.name, f))
            if f in given:
                v = given[f]
            elif d is not None:
                v = eval_dataclass_default(I, st, ci, d, fty)
                if v is None:
                    continue        # field(init=False): set by __post_init__
            else:
                raise Unsupported("missing dataclass field %s" % f)
            I.write_field(st, o, f, fty, adapt(I, st, v, fty))
        post = ci.find_method("__post_init__")
        if post is not None:
            invoke(I, st, post, [o], {}, node)
        return o
    return o


def eval_dataclass_default(I, st, ci, d, fty):
    if isinstance(d, ast.Call) and ast.unparse(d.func).endswith("field"):
        for kw in d.keywords:
            if kw.arg == "init" and isinstance(kw.value, ast.Constant) and kw.value.value is False:
                return None
            if kw.arg == "default_factory":
                nm = ast.unparse(kw.value)
                base = strip_opt(fty)
                if nm in ("list", "dict", "set") and is_ref(base):
                    kd = REG.get(base[1])
                    return I.new_list(st, base[1]) if kd.kind == "list" else I.new_dict(st, base[1])
            if kw.arg == "default":
                fr = Frame(None, ci.module)
                st.frames.append(fr)
                try:
                    return I.eval(st, kw.value)
                finally:
                    st.frames.pop()
        raise Unsupported("dataclass field() default")
    fr = Frame(None, ci.module)
    st.frames.append(fr)
    try:
        return I.eval(st, d)
    finally:
        st.frames.pop()


def construct_registered(I, st, name, args, kwargs, node):
    kd = REG.get(name)
    if kd.kind == "dict":
        return construct_dict(I, st, name, args, node)
    raise Unsupported("construct %s in spec" % name)


def construct_dict(I, st, clsname, args, node):
    kd = REG.get(clsname)
    if not args:
        return I.new_dict(st, clsname)
    src = args[0]
    if src.extra and src.extra[0] == "emptydict" and src.term is None:
        return I.new_dict(st, clsname)
    sb = strip_opt(src.ty)
    if is_ref(sb):
        skd = REG.get(sb[1])
        if skd.kind == "dict" and sort_of(skd.K) == sort_of(kd.K) and sort_of(strip_opt(skd.V)) == sort_of(strip_opt(kd.V)):
            return I.new_dict(st, clsname, dom=I.dom_of(st, src), vals=I.vals_of(st, src))
    raise Unsupported("dict construction from %s (line %s)" % (ty_str(src.ty), getattr(node, "lineno", "?")))
