"""Sorts, type descriptors, symbolic values and the sidecar class registry."""
import re
import z3

RefS = z3.DeclareSort("Ref")
StrS = z3.DeclareSort("Str")
IdS = z3.DeclareSort("Id")       # identifiers (order / loan ids): strings that are only compared, kept apart from symbols
NULL = z3.Const("null", RefS)
INF = z3.Real("INF")            # Decimal("Infinity"): only comparisons are allowed on it
EMPTY_STR = z3.Const("str_empty", StrS)

# ---------------------------------------------------------------------------------------
# Type descriptors: 'Int' 'Real' 'Bool' 'Str' 'DT' 'TD' 'NoneT' 'Any' 'Fun'
#   ('Ref', cls) ('Opt', T) ('Tuple', (T..)) ('Enum', name) ('Val', name)
# ---------------------------------------------------------------------------------------
SCALARS = {"Int", "Real", "Bool", "Str", "Id", "DT", "TD", "NoneT", "Any", "Fun", "Type", "Exc", "Float"}


def is_ref(t):
    return isinstance(t, tuple) and t[0] == "Ref"


def is_opt(t):
    return isinstance(t, tuple) and t[0] == "Opt"


def strip_opt(t):
    return t[1] if is_opt(t) else t


def ty_str(t):
    if isinstance(t, str):
        return t
    if t[0] == "Ref":
        return t[1]
    if t[0] == "Opt":
        return "Opt[%s]" % ty_str(t[1])
    if t[0] == "Tuple":
        return "Tuple[%s]" % ",".join(ty_str(x) for x in t[1])
    if t[0] == "Enum":
        return "Enum:%s" % t[1]
    if t[0] == "Val":
        return "Val:%s" % t[1]
    if t[0] == "MSet":
        return "MSet[%s]" % ty_str(t[1])
    if t[0] == "MMap":
        return "MMap[%s,%s]" % (ty_str(t[1]), ty_str(t[2]))
    return str(t)


class KlassDecl:
    """Sidecar declaration of a class: its fields and (for containers) content sorts."""

    def __init__(self, name, qualname=None, fields=None, kind="object", K=None, V=None, bases=(), ghost=None,
                 abstract=False, params=None):
        self.name = name
        self.qualname = qualname
        self.fields = dict(fields or {})   # attr -> Ty  (or raw type string containing $T for generic classes)
        self.ghost = dict(ghost or {})     # ghost attr -> Ty (spec only)
        self.params = dict(params or {})   # generic parameters: {"T": "Order"}
        self.kind = kind                   # object | dict | list | set
        self.K = K
        self.V = V
        self.bases = list(bases)           # names of KlassDecl
        self.cid = None
        self.abstract = abstract

    def raw_fields(self, reg):
        out = {}
        for b in self.bases:
            out.update(reg.get(b).raw_fields(reg))
        out.update(self.fields)
        out.update(self.ghost)
        return out

    def all_params(self, reg):
        out = {}
        for b in self.bases:
            out.update(reg.get(b).all_params(reg))
        out.update(self.params)
        return out

    def all_fields(self, reg):
        cache = getattr(self, "_all_fields", None)
        if cache is not None:
            return cache
        params = self.all_params(reg)
        out = {}
        for k, v in self.raw_fields(reg).items():
            if isinstance(v, str):
                for p, t in params.items():
                    v = v.replace("$" + p, t)
                v = reg.parse(v)
            out[k] = v
        self._all_fields = out
        return out

    def ancestors(self, reg):
        out = [self.name]
        for b in self.bases:
            for a in reg.get(b).ancestors(reg):
                if a not in out:
                    out.append(a)
        return out


class Registry:
    def __init__(self):
        self.klasses = {}
        self.by_qualname = {}
        self.enums = {}      # name -> {member: int}
        self.enum_qual = {}
        self.vals = {}       # value datatypes: name -> (z3 datatype, [(field, Ty)])
        self.val_qual = {}
        self._next_cid = 1
        self.aliases = {}    # annotation text -> type string
        self.unbounded = set()   # Real-valued fields that may hold Decimal('Infinity')
        self.sig_cids = {}
        self.shared_fields = set()
        self.heap_key = {}
        self.ordered = set()      # dict classes whose insertion order is modelled (ghost rank per key)          # element class -> field used as the ordering key of heapq lists of that class   # container-typed fields exempt from the ownership discipline

    def klass(self, name, qualname=None, **kw):
        # field types stay strings until first use (forward references between classes are allowed)
        fields = dict(kw.pop("fields", None) or {})
        ghost = dict(kw.pop("ghost", None) or {})
        kd = KlassDecl(name, qualname, fields=fields, ghost=ghost, **kw)
        kd.cid = self._next_cid
        self._next_cid += 1
        self.klasses[name] = kd
        if qualname and qualname not in self.by_qualname:
            self.by_qualname[qualname] = kd
        # containers inherit K/V
        if kd.kind == "object":
            for b in kd.bases:
                bd = self.get(b)
                if bd.kind != "object":
                    kd.kind, kd.K, kd.V = bd.kind, bd.K, bd.V
        return kd

    def get(self, name):
        if name in self.klasses:
            return self.klasses[name]
        m = re.match(r"^(Dict|List|Set)\[(.*)\]$", name)
        if m:
            args = split_args(m.group(2))
            if m.group(1) == "Dict":
                kd = KlassDecl(name, None, kind="dict", K=self.parse(args[0]), V=self.parse(args[1]))
            elif m.group(1) == "List":
                kd = KlassDecl(name, None, kind="list", K="Int", V=self.parse(args[0]))
            else:
                kd = KlassDecl(name, None, kind="set", K=self.parse(args[0]), V="Bool")
            # python generics are erased: builtin containers with the same (kind, key sort, value sort) share one class id
            sig = (kd.kind, str(sort_of(strip_opt(kd.K))), str(sort_of(strip_opt(kd.V))))
            if sig not in self.sig_cids:
                self.sig_cids[sig] = self._next_cid
                self._next_cid += 1
            kd.cid = self.sig_cids[sig]
            self.klasses[name] = kd
            return kd
        raise KeyError("unknown class %r in sidecar registry" % name)

    def has(self, name):
        try:
            self.get(name)
            return True
        except KeyError:
            return False

    def enum(self, name, qualname, members):
        self.enums[name] = dict(members)
        self.enum_qual[qualname] = name

    def val(self, name, qualname, fields):
        fields = [(f, self.parse(t)) for f, t in fields]
        dt = z3.Datatype(name)
        dt.declare("mk_" + name, *[(f, sort_of(t)) for f, t in fields])
        dt = dt.create()
        self.vals[name] = (dt, fields)
        self.val_qual[qualname] = name

    def subclass_names(self, name):
        return [k for k, kd in self.klasses.items() if name in kd.ancestors(self)]

    def is_sub(self, sub, sup):
        return sup in self.get(sub).ancestors(self)

    def parse(self, s):
        s = s.strip()
        if s in self.aliases:
            return self.parse(self.aliases[s])
        if s in SCALARS:
            return "Real" if s == "Float" else s
        if s.startswith("Opt[") and s.endswith("]"):
            return ("Opt", self.parse(s[4:-1]))
        if s.startswith("Tuple[") and s.endswith("]"):
            return ("Tuple", tuple(self.parse(a) for a in split_args(s[6:-1])))
        if s.startswith("MSet[") and s.endswith("]"):
            return ("MSet", self.parse(s[5:-1]))
        if s.startswith("MMap[") and s.endswith("]"):
            a = split_args(s[5:-1])
            return ("MMap", self.parse(a[0]), self.parse(a[1]))
        if s.startswith("Enum:"):
            return ("Enum", s[5:])
        if s.startswith("Val:"):
            return ("Val", s[4:])
        if s in self.enums:
            return ("Enum", s)
        if s in self.vals:
            return ("Val", s)
        m = re.match(r"^(Dict|List|Set)\[(.*)\]$", s)
        if m:
            args = [ty_str(self.parse(a)) for a in split_args(m.group(2))]
            nm = "%s[%s]" % (m.group(1), ",".join(args))
            self.get(nm)
            return ("Ref", nm)
        if s in self.klasses:
            return ("Ref", s)
        raise KeyError("cannot parse type %r" % s)


def split_args(s):
    out, depth, cur = [], 0, ""
    for ch in s:
        if ch == "[":
            depth += 1
        elif ch == "]":
            depth -= 1
        if ch == "," and depth == 0:
            out.append(cur.strip())
            cur = ""
        else:
            cur += ch
    if cur.strip():
        out.append(cur.strip())
    return out


REG = Registry()


def sort_of(t):
    if t in ("Int", "DT", "TD"):
        return z3.IntSort()
    if t == "Real":
        return z3.RealSort()
    if t == "Bool":
        return z3.BoolSort()
    if t == "Str":
        return StrS
    if t == "Id":
        return IdS
    if isinstance(t, tuple):
        if t[0] == "Ref":
            return RefS
        if t[0] == "Enum":
            return z3.IntSort()
        if t[0] == "Val":
            return REG.vals[t[1]][0]
        if t[0] == "Opt":
            return sort_of(t[1])
        if t[0] == "Tuple":
            return tuple_sort(t)[0]
    if t in ("Any", "Fun", "Exc"):
        return RefS
    raise TypeError("no sort for type %r" % (t,))


_TUPLE_SORTS = {}


def tuple_sort(t):
    """z3 datatype for a tuple stored in a container (list of tuples): (sort, constructor, accessors)"""
    sorts = tuple(sort_of(x) for x in t[1])
    key = tuple(str(x) for x in sorts)
    r = _TUPLE_SORTS.get(key)
    if r is None:
        dt = z3.Datatype("Tup_" + "_".join(key))
        dt.declare("mk", *[("f%d" % i, srt) for i, srt in enumerate(sorts)])
        dt = dt.create()
        r = _TUPLE_SORTS[key] = (dt, dt.constructor(0), [dt.accessor(0, i) for i in range(len(sorts))])
    return r


FALSE = z3.BoolVal(False)
TRUE = z3.BoolVal(True)


class Val:
    """A symbolic value: z3 term (or python structure for tuples/functions) + static type + is-None flag."""
    __slots__ = ("ty", "term", "none", "extra")

    def __init__(self, ty, term, none=None, extra=None):
        self.ty = ty
        self.term = term
        if none is None:
            if is_ref(strip_opt(ty)) or strip_opt(ty) in ("Any", "Exc"):
                none = (term == NULL) if is_opt(ty) else FALSE
            else:
                none = FALSE
        self.none = none
        self.extra = extra

    def __repr__(self):
        return "Val(%s, %s%s)" % (ty_str(self.ty), self.term, "" if z3.is_false(self.none) else ", none=%s" % self.none)


NONE = Val("NoneT", None, TRUE)


def mk_none(ty):
    """A None of optional type ty (term is an arbitrary default)."""
    base = strip_opt(ty)
    if is_ref(base) or base in ("Any", "Exc"):
        return Val(("Opt", base), NULL, TRUE)
    if base == "NoneT":
        return NONE
    return Val(("Opt", base), default_term(base), TRUE)


def default_term(t):
    s = sort_of(t)
    if s == z3.IntSort():
        return z3.IntVal(0)
    if s == z3.RealSort():
        return z3.RealVal(0)
    if s == z3.BoolSort():
        return FALSE
    return z3.FreshConst(s, "dflt")


def definitely_none(v):
    return z3.is_true(z3.simplify(v.none)) if v.none is not None else False


def definitely_not_none(v):
    return z3.is_false(z3.simplify(v.none))
