"""Sidecar contract registry (nothing of this lives in /repo)."""
import ast


class Clause:
    def __init__(self, label, text, props=()):
        self.label = label
        self.text = text
        self.props = tuple(props)
        try:
            self.node = ast.parse(text.strip(), mode="eval").body
        except SyntaxError as e:
            raise SyntaxError("bad clause %r: %s" % (text, e))

    def __repr__(self):
        return "Clause(%s: %s)" % (self.label, self.text)


def _clauses(items, default_props=()):
    out = []
    for i, it in enumerate(items or []):
        if isinstance(it, Clause):
            out.append(it)
        elif isinstance(it, str):
            out.append(Clause(str(i), it, default_props))
        elif len(it) == 2:
            out.append(Clause(it[0], it[1], default_props))
        else:
            out.append(Clause(it[0], it[1], it[2]))
    return out


class LoopSpec:
    def __init__(self, invariant=(), modifies=(), decreases=None, ghost_init=None, unroll=None, axioms=(), visits_all=None):
        self.axioms = _clauses(axioms)
        # visits_all="<why>": the loop must not be left by `break` (statement-derived, e.g. "every candidate is attempted"):
        # a reachable `break` is an obligation that fails
        self.visits_all = visits_all
        self.unroll = unroll      # complete unrolling up to N iterations, with an unwinding assertion (no invariant needed)
        self.invariant = _clauses(invariant)
        self.modifies = [ast.parse(m.strip(), mode="eval").body if isinstance(m, str) else m for m in modifies]
        self.modifies_text = list(modifies)
        self.decreases = decreases


class Contract:
    def __init__(self, qualname, props=(), requires=(), ensures=(), raises=None, modifies=(), loops=None,
                 types=None, returns=None, trusted=False, inline=False, pure=False, variant=None,
                 may_suspend=False, notes="", self_type=None, env=None, assume_no_raise=(), ghost=(),
                 pre_lemmas=(), post_lemmas=(), verify=True, call_inline=False, abstract=False, yields=None,
                 rely=(), rely_havoc=(), cancellable=False, ghost_exit=(), hints=(), axioms=(), callee_variant=None, site_pre=None):
        self.qualname = qualname
        self.props = tuple(props)
        self.requires = _clauses(requires, props)
        self.ensures = _clauses(ensures, props)
        self.raises = {k: _clauses(v, props) for k, v in (raises or {}).items()}
        self.modifies_text = list(modifies)
        self.modifies = [ast.parse(m.strip(), mode="eval").body for m in modifies]
        self.loops = {k: (v if isinstance(v, LoopSpec) else LoopSpec(**v)) for k, v in (loops or {}).items()}
        self.types = dict(types or {})
        self.returns = returns
        self.trusted = trusted          # contract is assumed (dependency / out of subset); never verified
        self.inline = inline
        self.pure = pure
        self.variant = variant          # name of the variant (e.g. rely) - several contracts per function
        self.callee_variant = callee_variant or variant   # callees are looked up in this variant first
        self.may_suspend = may_suspend
        self.notes = notes
        self.self_type = self_type
        self.env = dict(env or {})
        self.pre_lemmas = _clauses(pre_lemmas)
        self.post_lemmas = _clauses(post_lemmas)
        self.verify = verify and not trusted
        self.abstract = abstract        # base contract of an abstract method (overrides must refine)
        self.yields = yields
        self.rely = _clauses(rely)
        self.rely_havoc = [ast.parse(m.strip(), mode="eval").body for m in rely_havoc]
        self.cancellable = cancellable
        self.ghost_exit = list(ghost_exit)
        self.axioms = _clauses(axioms)          # valid axiom instances (sum axioms) assumed at entry and at every exit
        # extra obligations demanded at a call site of this function: {"<callee name>#<ordinal>": [clauses]}
        self.site_pre = {k: _clauses(v, props) for k, v in (site_pre or {}).items()}
        self.hints = _clauses(hints, props)     # Dafny-style asserts at entry: proved, then assumed

    @property
    def key(self):
        return self.qualname + ("@" + self.variant if self.variant else "")


class SpecFun:
    def __init__(self, name, params, body, types=None, returns=None):
        self.name = name
        self.params = params
        self.text = body
        self.node = ast.parse(body.strip(), mode="eval").body
        self.types = types or {}


class ClassInvariant:
    """Ownership-style class invariant: assumed at entry of the class's own methods (for `self`), proved at every exit.
    Callers do not carry it.  Sound because (i) the private fields are written only inside the class (sole-writer scan),
    (ii) the invariant is stable under the changes other code may make to the objects it mentions (stability lemma)."""

    def __init__(self, klass, clauses, private=(), stable_under=None, props=()):
        self.klass = klass
        self.clauses = _clauses(clauses, props)
        self.private = list(private)
        self.stable_under = stable_under
        self.props = tuple(props)


class ContractDB:
    def __init__(self):
        self.class_invariants = {}
        self.contracts = {}     # qualname -> Contract (default variant)
        self.variants = {}      # key -> Contract
        self.specfuns = {}
        self.lemmas = []
        self.transparent = set()
        self.trusted_notes = []
        self.field_writers = {}

    def contract(self, qualname, **kw):
        c = Contract(qualname, **kw)
        if c.variant:
            self.variants[c.key] = c
        else:
            self.contracts[qualname] = c
        return c

    def class_invariant(self, klass, clauses, **kw):
        self.class_invariants[klass] = ClassInvariant(klass, clauses, **kw)

    def specfun(self, name, params, body, **kw):
        self.specfuns[name] = SpecFun(name, params, body, **kw)

    active_variant = None

    def get(self, qualname):
        if self.active_variant:
            c = self.variants.get(qualname + "@" + self.active_variant)
            if c is not None:
                return c
        return self.contracts.get(qualname)


DB = ContractDB()
contract = DB.contract
specfun = DB.specfun
class_invariant = DB.class_invariant
