"""Loops are cut at their sidecar invariants (one arbitrary iteration + the exit state).

Spec names available inside a loop invariant:
  SEEN   (set/dict iteration) the set of keys already visited      IDX (list iteration) the index of the next element
  ENTRY(e)  value of e when the loop was first reached (like old(), but for the loop head)
"""
import ast
import z3

from .vtypes import (RefS, StrS, NULL, Val, NONE, REG, sort_of, is_ref, is_opt, strip_opt, FALSE, TRUE, ty_str)
from .state import (Frame, PathEnd, Unsupported, ReturnExc, BreakExc, ContinueExc, RaiseExc)
from . import specs, calls
from .interp import mkbool, mkint


def loop_ordinal(I, st, node):
    fi = st.frame.func
    if fi is None:
        raise Unsupported("loop outside function")
    loops_ = [x for x in ast.walk(fi.node) if isinstance(x, (ast.For, ast.While, ast.AsyncFor))]
    loops_.sort(key=lambda x: (x.lineno, x.col_offset))     # ordinal = source order
    for n, x in enumerate(loops_):
        if x is node:
            return n
    raise Unsupported("loop not found in %s" % fi.qualname)


def assigned_names(stmts):
    out = set()
    for s in stmts:
        for n in ast.walk(s):
            if isinstance(n, ast.Name) and isinstance(n.ctx, ast.Store):
                out.add(n.id)
            elif isinstance(n, ast.NamedExpr):
                out.add(n.target.id)
    return out


def loop_spec(I, st, node):
    ov = getattr(st, "gen_loop_override", None)
    if ov is not None and st.frame.func is not None and st.frame.func.qualname == ov[0]:
        # a loop of an inlined generator: cut at the invariant of the consumer's for loop
        return ov[2], ov[3]
    fi = st.frame.func
    c = I.active_contract(fi)
    k = loop_ordinal(I, st, node)
    if c is None or k not in c.loops:
        raise Unsupported("loop #%d of %s has no invariant in the sidecar (line %d)" % (k, fi.qualname, node.lineno))
    return k, c.loops[k]


def spec_env(I, st, extra):
    fr = st.frame
    ov = getattr(st, "gen_loop_override", None)
    if ov is not None and fr.func is not None and fr.func.qualname == ov[0]:
        # invariants of an inlined generator's loop are written in the consumer's vocabulary; the generator's own locals
        # are visible as GEN_<name>
        cons = ov[1]
        env = {}
        env.update(cons.entry_vars)
        env.update(cons.vars)
        if cons.spec_env:
            for k, v in cons.spec_env.items():
                env.setdefault(k, v)
        for k, v in fr.vars.items():
            env["GEN_" + k] = v
        env.update(extra)
        return env
    env = {}
    f = fr
    chain = []
    while f is not None:
        chain.append(f)
        f = f.parent
    for f in reversed(chain):
        env.update(f.entry_vars)
        env.update(f.vars)
    if fr.spec_env:
        for k, v in fr.spec_env.items():
            env.setdefault(k, v)
    # inside the body of a loop over a list the index of the current element is visible to site assertions as IDX
    li = getattr(fr, "loop_idx", None)
    if li is not None:
        env.setdefault("IDX", li)
    env.update(extra)
    return env


def check_inv(I, st, ls, k, env, tag):
    fi = st.frame.func
    ov = getattr(st, "gen_loop_override", None)
    if ov is not None and fi is not None and fi.qualname == ov[0]:
        fi = ov[1].func
    for cl in getattr(ls, "axioms", []):
        st.assume(specs.eval_clause(I, st, cl, env, fi))
    for cl in ls.invariant:
        g = specs.eval_clause(I, st, cl, env, fi)
        st.oblige("%s.loop[%s].%s[%s]" % (I.short(fi), k, tag, cl.label), g,
                  meta={"kind": "loop_" + tag, "clause": cl.text, "props": cl.props})


def assume_inv(I, st, ls, env):
    fi = st.frame.func
    for cl in ls.invariant:
        st.assume(specs.eval_clause(I, st, cl, env, fi))


def havoc(I, st, ls, env, names):
    locs = calls.modifies_locations(I, st, None, env, ls.modifies)
    calls.havoc_locations(I, st, locs)
    ov = getattr(st, "gen_loop_override", None)
    if ov is not None and st.frame.func is not None and st.frame.func.qualname == ov[0]:
        cons, fnode = ov[1], ov[4]
        if isinstance(fnode, ast.For):
            cnames = assigned_names(fnode.body) | {n.id for n in ast.walk(fnode.target) if isinstance(n, ast.Name)}
            _havoc_vars(st, cons.vars, cnames)
    _havoc_vars(st, st.locals, names)


def _havoc_vars(st, vars_, names):
    for nm in sorted(names):
        v = vars_.get(nm)
        if v is None:
            continue
        if v.ty in ("Fun", "Type", "View", "Gen", "Coro", "CtxMgr"):
            continue
        if v.extra and v.extra[0] in ("emptydict", "emptylist") and v.term is None:
            continue
        if isinstance(strip_opt(v.ty), tuple) and strip_opt(v.ty)[0] == "Tuple":
            vars_[nm] = st.fresh_val(strip_opt(v.ty), nm)
            continue
        if v.ty == "NoneT":
            continue
        if v.ty == "Exc":
            continue
        ty = v.ty
        if not z3.is_false(v.none) and not is_opt(ty):
            ty = ("Opt", ty)
        vars_[nm] = st.fresh_val(ty, nm)


def exec_while(I, st, node):
    k, ls = loop_spec(I, st, node)
    entry_heap = dict(st.heap)
    env0 = spec_env(I, st, {})
    entry_env = dict(env0)
    mk_env = lambda: add_entry(spec_env(I, st, {}), entry_env, entry_heap, st)
    check_inv(I, st, ls, k, mk_env(), "entry")
    names = assigned_names(node.body) | assigned_names([ast.Expr(node.test)])
    havoc(I, st, ls, env0, names)
    assume_inv(I, st, ls, mk_env())
    cond = I.truthy(st, I.eval(st, node.test))
    if st.decide(cond):
        try:
            I.exec_block(st, node.body)
        except ContinueExc:
            pass
        except BreakExc:
            return
        check_inv(I, st, ls, k, mk_env(), "preserved")
        raise PathEnd("loop iteration done")
    else:
        I.exec_block(st, node.orelse)


def add_entry(env, entry_env, entry_heap, st):
    env["__entry_env"] = entry_env
    env["__entry_heap"] = entry_heap
    return env


# ---------------------------------------------------------------------------------------
# for loops
# ---------------------------------------------------------------------------------------
def iter_source(I, st, it):
    """classify an iterable value -> (kind, payload)"""
    if it.extra and it.extra[0] in ("emptydict", "emptylist", "emptyset") and it.term is None:
        return ("empty", None)
    if it.ty == "View":
        kind = it.term[0]
        if kind == "empty":
            return ("empty", None)
        if kind in ("items", "keys", "values"):
            return ("dict", (kind, it.term[1]))
        if kind == "filter":
            return ("filter", it.term)
        if kind == "enumerate":
            return ("enumerate", it.term)
        raise Unsupported("iteration over view %s" % kind)
    if it.ty == "Gen":
        return ("gen", it.term)
    base = strip_opt(it.ty)
    if isinstance(base, tuple) and base[0] == "Tuple":
        return ("tuple", it.term)
    if is_ref(base):
        kd = REG.get(base[1])
        if kd.kind == "dict":
            return ("dict", ("keys", it))
        if kd.kind == "set":
            return ("set", it)
        if kd.kind == "list":
            sv = st.set_views.get(it.term.get_id())
            if sv is not None:
                return ("setview", (it, sv))
            ln = z3.simplify(st.resolve_select(I.list_len(st, it)))
            if z3.is_int_value(ln) and ln.as_long() == 0:
                return ("empty", None)
            return ("list", it)
    raise Unsupported("iteration over %s" % ty_str(it.ty))


def exec_for(I, st, node):
    if isinstance(node.iter, (ast.List, ast.Tuple)) and not any(isinstance(e, ast.Starred) for e in node.iter.elts):
        # a literal sequence is unrolled (finite, known length); elements are evaluated up front as Python does
        vals = [I.eval(st, e) for e in node.iter.elts]
        for v in vals:
            I.assign(st, node.target, v)
            try:
                I.exec_block(st, node.body)
            except ContinueExc:
                continue
            except BreakExc:
                return
        I.exec_block(st, node.orelse)
        return
    it = I.eval(st, node.iter)
    kind, payload = iter_source(I, st, it)
    if kind == "empty":
        I.exec_block(st, node.orelse)
        return
    if kind == "tuple":
        # literal tuples are unrolled (finite, known length)
        for v in payload:
            I.assign(st, node.target, v)
            try:
                I.exec_block(st, node.body)
            except ContinueExc:
                continue
            except BreakExc:
                return
        I.exec_block(st, node.orelse)
        return
    if kind == "gen":
        from . import generators
        return generators.exec_for_gen(I, st, node, payload)
    if kind == "filter":
        from . import generators
        return generators.exec_for_filter(I, st, node, payload)
    k, ls = loop_spec(I, st, node)
    if ls.unroll:
        return exec_for_unrolled(I, st, node, kind, payload, k, ls)
    entry_heap = dict(st.heap)
    entry_env = dict(spec_env(I, st, {}))
    names = assigned_names(node.body) | assigned_names([ast.Expr(node.target)]) if False else \
        (assigned_names(node.body) | {n.id for n in ast.walk(node.target) if isinstance(n, ast.Name)})

    def mk_env(extra):
        return add_entry(spec_env(I, st, extra), entry_env, entry_heap, st)

    if kind in ("dict", "set", "setview"):
        if kind == "dict":
            vkind, d = payload
            kd = I.kd_of(d)
            D = I.dom_of(st, d)
            kt = kd.K
        elif kind == "set":
            d = payload
            kd = I.kd_of(d)
            D = I.dom_of(st, d)
            kt = kd.K
            vkind = "keys"
        else:
            lst, D = payload
            kt = strip_opt(I.kd_of(lst).V)
            vkind = "keys"
            d = None
        ks = sort_of(kt)
        setty = ("MSet", kt)
        empty = z3.K(ks, FALSE)
        check_inv(I, st, ls, k, mk_env({"SEEN": Val(setty, empty), "ALL": Val(setty, D)}), "entry")
        branch = st.decide(D != empty, "loop nonempty") and st.choose(2, "iterate-or-exit") == 0
        # note: when D is empty only the exit branch exists
        if branch:
            seen = st.fresh(z3.ArraySort(ks, z3.BoolSort()), "seen")
            kx = st.fresh(ks, "k")
            q = z3.FreshConst(ks, "q")
            st.assume(z3.ForAll([q], z3.Implies(z3.Select(seen, q), z3.Select(D, q))))
            st.assume(z3.Select(D, kx))
            st.assume(z3.Not(z3.Select(seen, kx)))
            if kind == "dict" and kd.name in REG.ordered:
                # insertion order: the keys already visited are exactly those inserted before the current one
                # (sound for loops that do not insert or delete keys; ranks of present keys are pairwise different)
                rk = I.rank_of(st, d)
                q2 = z3.FreshConst(ks, "q")
                st.assume(z3.ForAll([q2], z3.Select(seen, q2) == z3.And(z3.Select(D, q2), z3.Select(rk, q2) < z3.Select(rk, kx))))
            havoc(I, st, ls, entry_env, names)
            assume_inv(I, st, ls, mk_env({"SEEN": Val(setty, seen), "ALL": Val(setty, D)}))
            keyv = Val(kt, kx)
            st.assume_type_inv(keyv)
            if vkind == "keys":
                tv = keyv
            else:
                # live view: the value is read from the dict as it is now
                cur = I.elem_val(st, kd, z3.Select(I.vals_of(st, d), kx))
                tv = cur if vkind == "values" else Val(("Tuple", (kt, kd.V)), (keyv, cur))
            I.assign(st, node.target, tv)
            try:
                I.exec_block(st, node.body)
            except ContinueExc:
                pass
            except BreakExc:
                return
            seen2 = z3.Store(seen, kx, True)
            check_inv(I, st, ls, k, mk_env({"SEEN": Val(setty, seen2), "ALL": Val(setty, D)}), "preserved")
            raise PathEnd("loop iteration done")
        else:
            havoc(I, st, ls, entry_env, names)
            assume_inv(I, st, ls, mk_env({"SEEN": Val(setty, D), "ALL": Val(setty, D)}))
            I.exec_block(st, node.orelse)
            return
    if kind == "list" or kind == "enumerate":
        if kind == "enumerate":
            lst = payload[1]
            start = payload[2]
        else:
            lst = payload
            start = None
        kd = I.kd_of(lst)
        check_inv(I, st, ls, k, mk_env({"IDX": mkint(0)}), "entry")
        b = st.choose(2, "iterate-or-exit")
        if b == 0:
            havoc(I, st, ls, entry_env, names)
            idx = st.fresh(z3.IntSort(), "idx")
            st.assume(idx >= 0)
            assume_inv(I, st, ls, mk_env({"IDX": mkint(idx)}))
            ln = I.list_len(st, lst)
            st.assume(idx < ln)
            if not st.feasible():
                raise PathEnd("no iteration possible")
            ev = I.elem_val(st, kd, z3.Select(I.list_items(st, lst), idx))
            if kind == "enumerate":
                ev = Val(("Tuple", ("Int", ev.ty)), (mkint(idx + (start.term if start is not None else 0)), ev))
            I.assign(st, node.target, ev)
            saved_idx = getattr(st.frame, "loop_idx", None)
            st.frame.loop_idx = mkint(idx)
            try:
                I.exec_block(st, node.body)
            except ContinueExc:
                pass
            except BreakExc:
                if getattr(ls, "visits_all", None):
                    st.oblige("%s.loop[%s].visits_all" % (I.short(st.frame.func), k), FALSE,
                              meta={"kind": "loop_visits_all", "clause": "no element is skipped by `break`: " + ls.visits_all})
                return
            finally:
                st.frame.loop_idx = saved_idx
            check_inv(I, st, ls, k, mk_env({"IDX": mkint(idx + 1)}), "preserved")
            raise PathEnd("loop iteration done")
        else:
            havoc(I, st, ls, entry_env, names)
            idx = st.fresh(z3.IntSort(), "idx")
            assume_inv(I, st, ls, mk_env({"IDX": mkint(idx)}))
            st.assume(idx >= I.list_len(st, lst))
            st.assume(idx >= 0)
            if not st.feasible():
                raise PathEnd("exit infeasible")
            # expose the final index to later specs through a ghost local
            I.exec_block(st, node.orelse)
            return
    raise Unsupported("for over %s" % kind)


def exec_for_unrolled(I, st, node, kind, payload, k, ls):
    """complete unrolling: at most ls.unroll iterations, then the unwinding assertion `nothing is left` is an obligation
    (so the unrolling is a proof for every input that satisfies the function's precondition, not a bounded check)"""
    fi = st.frame.func
    N = ls.unroll
    if kind in ("dict", "set", "setview"):
        if kind == "dict":
            vkind, d = payload
            kd = I.kd_of(d)
            D = I.dom_of(st, d)
            kt = kd.K
        elif kind == "set":
            d = payload
            kd = I.kd_of(d)
            D = I.dom_of(st, d)
            kt = kd.K
            vkind = "keys"
        else:
            lst, D = payload
            kt = strip_opt(I.kd_of(lst).V)
            vkind = "keys"
            d = None
        ks = sort_of(kt)
        empty = z3.K(ks, FALSE)
        remaining = D
        for j in range(N):
            if not st.decide(remaining != empty, "unrolled loop: more elements"):
                I.exec_block(st, node.orelse)
                return
            kx = st.fresh(ks, "k")
            st.assume(z3.Select(remaining, kx))
            keyv = Val(kt, kx)
            st.assume_type_inv(keyv)
            if vkind == "keys":
                tv = keyv
            else:
                cur = I.elem_val(st, kd, z3.Select(I.vals_of(st, d), kx))
                tv = cur if vkind == "values" else Val(("Tuple", (kt, kd.V)), (keyv, cur))
            I.assign(st, node.target, tv)
            remaining = z3.Store(remaining, kx, False)
            try:
                I.exec_block(st, node.body)
            except ContinueExc:
                continue
            except BreakExc:
                return
        st.oblige("%s.loop[%d].unwind[%d]" % (I.short(fi), k, N), remaining == empty,
                  meta={"kind": "loop_unwind", "clause": "the loop runs at most %d times" % N})
        I.exec_block(st, node.orelse)
        return
    if kind == "list":
        lst = payload
        kd = I.kd_of(lst)
        for j in range(N):
            ln = I.list_len(st, lst)
            if not st.decide(j < ln, "unrolled loop: more elements"):
                I.exec_block(st, node.orelse)
                return
            ev = I.elem_val(st, kd, z3.Select(I.list_items(st, lst), j))
            I.assign(st, node.target, ev)
            try:
                I.exec_block(st, node.body)
            except ContinueExc:
                continue
            except BreakExc:
                return
        st.oblige("%s.loop[%d].unwind[%d]" % (I.short(fi), k, N), I.list_len(st, lst) <= N,
                  meta={"kind": "loop_unwind", "clause": "the loop runs at most %d times" % N})
        I.exec_block(st, node.orelse)
        return
    raise Unsupported("unrolling of a %s loop" % kind)
