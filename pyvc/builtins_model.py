"""Models of Python builtins, container methods and the few external library calls on the proof path.

Each model is part of the trusted base ("assumed contracts on dependencies", DESIGN 3.6).
"""
import ast
import z3

from .vtypes import (RefS, StrS, NULL, INF, EMPTY_STR, Val, NONE, REG, sort_of, is_ref, is_opt, strip_opt, FALSE, TRUE,
                     ty_str, mk_none)
from .state import Unsupported, RaiseExc, ExcVal, PathEnd
from . import prelude
from .interp import mkbool, mkint, mkreal


def _is_placeholder(v):
    return bool(v.extra) and v.extra[0] in ("emptydict", "emptylist") and v.term is None


def numeric_join(I, st, vals):
    real = any(strip_opt(v.ty) == "Real" for v in vals)
    kinds = {strip_opt(v.ty) for v in vals}
    if kinds <= {"Int", "Real", "Bool"}:
        ty = "Real" if real else "Int"
        return ty, [I.coerce(st, v, ty).term for v in vals]
    if len(kinds) == 1:
        k = kinds.pop()
        if k in ("DT", "TD"):
            return k, [v.term for v in vals]
    raise Unsupported("min/max over %s" % ",".join(ty_str(v.ty) for v in vals))


def check_not_none(I, st, vals, node):
    if st.spec_depth > 0:
        return
    for v in vals:
        if v.ty == "NoneT":
            I.raise_(st, "TypeError", node)
        if not z3.is_false(v.none):
            if st.decide(v.none):
                I.raise_(st, "TypeError", node)


def iter_elements_spec(I, st, v):
    """for sum/any/all/min/max over small literal tuples"""
    base = strip_opt(v.ty)
    if isinstance(base, tuple) and base[0] == "Tuple":
        return list(v.term)
    return None


def call_builtin(I, st, name, args, kwargs, node):
    if name in ("max", "min"):
        if len(args) == 1:
            from . import comprehension
            return comprehension.min_max_iter(I, st, name, args[0], node)
        check_not_none(I, st, args, node)
        ty, ts = numeric_join(I, st, args)
        r = ts[0]
        for t in ts[1:]:
            r = prelude.zmax(r, t) if name == "max" else prelude.zmin(r, t)
        return Val(ty, r)
    if name == "abs":
        check_not_none(I, st, args, node)
        v = args[0]
        return Val(strip_opt(v.ty), prelude.zabs(v.term))
    if name == "len":
        v = args[0]
        if _is_placeholder(v):
            return mkint(0)
        base = strip_opt(v.ty)
        if isinstance(base, tuple) and base[0] == "Tuple":
            return mkint(len(base[1]))
        kd = I.kd_of(v)
        if kd.kind in ("dict", "set"):
            return mkint(prelude.card(I.dom_of(st, v)))
        if kd.kind == "list":
            return mkint(I.list_len(st, v))
        raise Unsupported("len of %s" % ty_str(v.ty))
    if name == "isinstance":
        o, c = args
        if c.ty == "Type" and c.term[0] == "class":
            ci = c.term[1]
            if ci.qualname in REG.by_qualname and is_ref(strip_opt(o.ty)):
                return mkbool(z3.And(z3.Not(o.none), st.cls_is(o.term, REG.by_qualname[ci.qualname].name)))
        if c.ty == "Type" and c.term[0] == "external":
            tail = c.term[1].split(".")[-1]
            m = {"Decimal": "Real", "int": "Int", "float": "Real", "str": "Str", "datetime": "DT"}
            if tail in m:
                return mkbool(z3.And(z3.Not(o.none), z3.BoolVal(strip_opt(o.ty) == m[tail])))
        if c.ty == "Fun" and c.term[0] == "builtin":
            m = {"int": "Int", "float": "Real", "str": "Str", "bool": "Bool"}
            if c.term[1] in m:
                return mkbool(z3.And(z3.Not(o.none), z3.BoolVal(strip_opt(o.ty) == m[c.term[1]])))
        raise Unsupported("isinstance(%s, %s)" % (ty_str(o.ty), c.term))
    if name == "set":
        return make_set(I, st, args, node)
    if name == "dict":
        if not args:
            return Val(("Ref", "Dict[Any,Any]"), None, extra=("emptydict",))
        from . import calls
        src = args[0]
        return calls.construct_dict(I, st, strip_opt(src.ty)[1], args, node)
    if name == "list":
        from . import comprehension
        if not args:
            return Val(("Ref", "List[Any]"), None, extra=("emptylist",))
        return comprehension.to_list(I, st, args[0], node)
    if name == "tuple":
        raise Unsupported("tuple()")
    if name == "int":
        v = args[0]
        b = strip_opt(v.ty)
        if b == "Int":
            return v
        if b == "Real":
            x = v.term
            return mkint(z3.If(x >= 0, z3.ToInt(x), -z3.ToInt(-x)))
        if b == "Bool":
            return I.coerce(st, v, "Int")
        if b == "Str":
            return mkint(prelude_int_of_str(v.term))
        raise Unsupported("int(%s)" % ty_str(v.ty))
    if name == "float":
        v = args[0]
        b = strip_opt(v.ty)
        if b in ("Int", "Real", "Bool"):
            return I.coerce(st, v, "Real")
        if b == "Str":
            return mkreal(real_of_str(v.term))
        raise Unsupported("float(%s)" % ty_str(v.ty))
    if name == "str" or name == "repr" or name == "format":
        v = args[0] if args else None
        if v is None:
            return Val("Str", EMPTY_STR)
        b = strip_opt(v.ty)
        if b == "Str":
            return v
        if b == "Real":
            return Val("Str", prelude.str_of_real(v.term), extra=("str_of_real", v.term))
        if b == "Int":
            return Val("Str", prelude.str_of_int(v.term))
        return Val("Str", st.fresh(StrS, "str"))
    if name == "bool":
        return mkbool(I.truthy(st, args[0]))
    if name == "round":
        v = args[0]
        if len(args) == 1 and strip_opt(v.ty) == "Real":
            return mkint(round_half_even(v.term))
        raise Unsupported("round with ndigits")
    if name == "type":
        return Val("Any", st.fresh(RefS, "type"))
    if name == "print":
        return NONE
    if name == "id":
        return mkint(st.fresh(z3.IntSort(), "id"))
    if name in ("sum", "any", "all", "sorted", "filter", "map", "enumerate", "zip", "reversed", "iter", "range"):
        from . import comprehension
        return comprehension.iter_builtin(I, st, name, args, kwargs, node)
    if name == "getattr":
        o, nm = args[0], node.args[1]
        if isinstance(nm, ast.Constant):
            return I.get_attr(st, o, nm.value, node)
        raise Unsupported("getattr with dynamic name")
    if name == "callable":
        return mkbool(args[0].ty == "Fun")
    raise Unsupported("builtin %s (line %s)" % (name, getattr(node, "lineno", "?")))


dt_of_str = z3.Function("dt_of_str", StrS, z3.IntSort())
int_of_str = z3.Function("int_of_str", StrS, z3.IntSort())
real_of_str = z3.Function("real_of_str", StrS, z3.RealSort())


def prelude_int_of_str(t):
    return int_of_str(t)


def round_half_even(x):
    f = z3.ToInt(x)
    d = x - z3.ToReal(f)
    return z3.If(d < 0.5, f, z3.If(d > 0.5, f + 1, z3.If(f % 2 == 0, f, f + 1)))


def view_dom(I, st, v):
    """dom array of an iterable 'view' value whose elements are keys"""
    if _is_placeholder(v):
        return None
    if v.ty == "View":
        kind = v.term[0]
        if kind == "keys":
            return I.dom_of(st, v.term[1])
        if kind == "chain":
            doms = [view_dom(I, st, x) for x in v.term[1]]
            doms = [d for d in doms if d is not None]
            if not doms:
                return None
            k = z3.FreshConst(doms[0].sort().domain(), "k")
            return st.deflam([k], z3.Or(*[z3.Select(d, k) for d in doms]))
        raise Unsupported("set of view %s" % kind)
    base = strip_opt(v.ty)
    if isinstance(base, tuple) and base[0] == "MSet":
        return v.term
    if is_ref(base):
        kd = REG.get(base[1])
        if kd.kind in ("dict", "set"):
            return I.dom_of(st, v)
        if kd.kind == "list":
            sv = st.set_views.get(v.term.get_id())
            if sv is not None:
                return sv
            i = z3.FreshConst(z3.IntSort(), "i")
            k = z3.FreshConst(sort_of(strip_opt(kd.V)), "k")
            ln, items = I.list_len(st, v), I.list_items(st, v)
            return st.deflam([k], z3.Exists([i], z3.And(0 <= i, i < ln, z3.Select(items, i) == k)))
    raise Unsupported("set() of %s" % ty_str(v.ty))


def view_key_type(I, st, v):
    if v.ty == "View":
        if v.term[0] == "keys":
            return I.kd_of(v.term[1]).K
        if v.term[0] == "chain":
            for x in v.term[1]:
                if not _is_placeholder(x):
                    return view_key_type(I, st, x)
            return "Str"
    base = strip_opt(v.ty)
    if isinstance(base, tuple) and base[0] == "MSet":
        return base[1]
    kd = I.kd_of(v)
    if kd.kind in ("dict", "set"):
        return kd.K
    return strip_opt(kd.V)


def make_set(I, st, args, node):
    if not args:
        return Val(("Ref", "Set[Any]"), None, extra=("emptyset",))
    src = args[0]
    kt = view_key_type(I, st, src)
    cls = "Set[%s]" % ty_str(kt)
    REG.parse(cls)
    dom = view_dom(I, st, src)
    return I.new_dict(st, cls, dom=dom)


# =======================================================================================
# methods of builtin containers / scalars
# =======================================================================================
def call_method(I, st, name, obj, args, kwargs, node):
    kind, _, meth = name.partition(".")
    if kind == "dict":
        return dict_method(I, st, meth, obj, args, kwargs, node)
    if kind == "list":
        return list_method(I, st, meth, obj, args, kwargs, node)
    if kind == "set":
        return set_method(I, st, meth, obj, args, kwargs, node)
    if kind == "task":
        from . import asyncio_model
        return asyncio_model.task_method(I, st, meth, obj, args, kwargs, node)
    if kind == "td" and meth == "total_seconds":
        return mkreal(z3.ToReal(obj.term) / 1000000)
    if kind == "real":
        return real_method(I, st, meth, obj, args, kwargs, node)
    if kind == "dt":
        return dt_method(I, st, meth, obj, args, kwargs, node)
    if kind == "str":
        return str_method(I, st, meth, obj, args, kwargs, node)
    if kind == "exc":
        return Val("Any", st.fresh(RefS, "excattr"))
    if kind == "any":
        from . import asyncio_model
        return asyncio_model.call_any_method(I, st, meth, obj, args, kwargs, node)
    raise Unsupported("method %s (line %s)" % (name, getattr(node, "lineno", "?")))


def dict_method(I, st, meth, obj, args, kwargs, node):
    if _is_placeholder(obj):
        if meth in ("items", "keys", "values"):
            return Val("View", ("empty",))
        if meth == "get":
            return args[1] if len(args) > 1 else NONE
        raise Unsupported("method %s on untyped empty dict" % meth)
    kd = I.kd_of(obj)
    if meth == "get":
        k = I.key_term(st, kd, args[0])
        indom = z3.Select(I.dom_of(st, obj), k)
        cur = z3.Select(I.vals_of(st, obj), k)
        vt = strip_opt(kd.V)
        if len(args) > 1 or "default" in kwargs:
            d = args[1] if len(args) > 1 else kwargs["default"]
            if d.ty == "NoneT":
                return opt_val(I, st, vt, cur, z3.Not(indom))
            if _is_placeholder(d) and is_ref(vt):
                d = I.new_list(st, vt[1]) if REG.get(vt[1]).kind == "list" else I.new_dict(st, vt[1])
            d2 = I.coerce(st, d, vt)
            if sort_of(strip_opt(d2.ty)) != sort_of(vt):
                raise Unsupported("dict.get default sort mismatch")
            r = Val(vt if z3.is_false(d2.none) else ("Opt", vt), z3.If(indom, cur, d2.term),
                    z3.simplify(z3.If(indom, FALSE, d2.none)))
            return r
        return opt_val(I, st, vt, cur, z3.Not(indom))
    if meth in ("items", "keys", "values"):
        return Val("View", (meth, obj))
    if meth == "setdefault":
        k = I.key_term(st, kd, args[0])
        indom = z3.Select(I.dom_of(st, obj), k)
        d = args[1] if len(args) > 1 else mk_none(strip_opt(kd.V))
        if _is_placeholder(d):
            base = strip_opt(kd.V)
            d = I.new_list(st, base[1]) if REG.get(base[1]).kind == "list" else I.new_dict(st, base[1])
        if st.decide(indom):
            return I.elem_val(st, kd, z3.Select(I.vals_of(st, obj), k))
        I.note_insert(st, obj, k, I.dom_of(st, obj))
        I.set_dom(st, obj, z3.Store(I.dom_of(st, obj), k, True))
        I.set_vals(st, obj, z3.Store(I.vals_of(st, obj), k, I.coerce(st, d, kd.V).term))
        return d
    if meth == "pop":
        k = I.key_term(st, kd, args[0])
        indom = z3.Select(I.dom_of(st, obj), k)
        if not st.decide(indom):
            if len(args) > 1:
                return args[1]
            I.raise_(st, "KeyError", node)
        r = I.elem_val(st, kd, z3.Select(I.vals_of(st, obj), k))
        I.set_dom(st, obj, z3.Store(I.dom_of(st, obj), k, False))
        return r
    if meth == "update":
        src = args[0]
        if _is_placeholder(src):
            return NONE
        skd = I.kd_of(src)
        if skd.kind != "dict":
            raise Unsupported("dict.update from non-dict")
        k = z3.FreshConst(sort_of(kd.K), "k")
        sd, sv = I.dom_of(st, src), I.vals_of(st, src)
        d, v = I.dom_of(st, obj), I.vals_of(st, obj)
        I.set_dom(st, obj, st.deflam([k], z3.Or(z3.Select(d, k), z3.Select(sd, k))))
        I.set_vals(st, obj, st.deflam([k], z3.If(z3.Select(sd, k), z3.Select(sv, k), z3.Select(v, k))))
        return NONE
    if meth == "clear":
        I.set_dom(st, obj, z3.K(sort_of(kd.K), FALSE))
        return NONE
    if meth == "copy":
        return I.new_dict(st, strip_opt(obj.ty)[1], dom=I.dom_of(st, obj), vals=I.vals_of(st, obj))
    raise Unsupported("dict.%s" % meth)


def opt_val(I, st, vt, term, none):
    if is_ref(vt) or vt in ("Any", "Exc"):
        if st.spec_depth == 0 and is_ref(vt):
            st.assume(z3.Implies(z3.Not(none), term != NULL))     # well-typed heap: stored values are not None
        v = Val(("Opt", vt), z3.If(none, NULL, term))
    else:
        v = Val(("Opt", vt), term, none)
    if st.spec_depth == 0:
        st.assume_type_inv(v)
    return v


def list_method(I, st, meth, obj, args, kwargs, node):
    if _is_placeholder(obj):
        raise Unsupported("method %s on untyped empty list (annotate it)" % meth)
    kd = I.kd_of(obj)
    ln, items = I.list_len(st, obj), I.list_items(st, obj)
    if meth == "append":
        v = I.coerce(st, args[0], kd.V)
        I.set_list(st, obj, ln + 1, z3.Store(items, ln, v.term))
        return NONE
    if meth == "pop":
        if args:
            iv = z3.simplify(args[0].term)
            if not (z3.is_int_value(iv) and iv.as_long() == 0):
                raise Unsupported("list.pop(i) with i != 0")
            if not st.decide(ln > 0):
                I.raise_(st, "IndexError", node)
            r = I.elem_val(st, kd, z3.Select(items, 0))
            i = z3.FreshConst(z3.IntSort(), "i")
            I.set_list(st, obj, ln - 1, st.deflam([i], z3.Select(items, i + 1)))
            return r
        if not st.decide(ln > 0):
            I.raise_(st, "IndexError", node)
        r = I.elem_val(st, kd, z3.Select(items, ln - 1))
        I.set_list(st, obj, ln - 1, items)
        return r
    if meth == "extend":
        src = args[0]
        if _is_placeholder(src):
            return NONE
        sl, si = I.list_len(st, src), I.list_items(st, src)
        i = z3.FreshConst(z3.IntSort(), "i")
        I.set_list(st, obj, ln + sl, st.deflam([i], z3.If(i < ln, z3.Select(items, i), z3.Select(si, i - ln))))
        return NONE
    if meth == "sort":
        from . import comprehension
        return comprehension.list_sort(I, st, obj, kwargs, node)
    if meth == "clear":
        I.set_list(st, obj, z3.IntVal(0), items)
        return NONE
    raise Unsupported("list.%s" % meth)


def set_method(I, st, meth, obj, args, kwargs, node):
    kd = I.kd_of(obj)
    dom = I.dom_of(st, obj)
    if meth == "add":
        I.set_dom(st, obj, z3.Store(dom, I.key_term(st, kd, args[0]), True))
        return NONE
    if meth == "remove":
        k = I.key_term(st, kd, args[0])
        if not st.decide(z3.Select(dom, k)):
            I.raise_(st, "KeyError", node)
        I.set_dom(st, obj, z3.Store(dom, k, False))
        return NONE
    if meth == "discard":
        I.set_dom(st, obj, z3.Store(dom, I.key_term(st, kd, args[0]), False))
        return NONE
    if meth == "update":
        sd = view_dom(I, st, args[0])
        if sd is None:
            return NONE
        k = z3.FreshConst(sort_of(kd.K), "k")
        I.set_dom(st, obj, st.deflam([k], z3.Or(z3.Select(dom, k), z3.Select(sd, k))))
        return NONE
    if meth == "clear":
        I.set_dom(st, obj, z3.K(sort_of(kd.K), FALSE))
        return NONE
    raise Unsupported("set.%s" % meth)


def real_method(I, st, meth, obj, args, kwargs, node):
    if meth == "quantize":
        u = args[0]
        if not (u.extra and u.extra[0] == "unit"):
            raise Unsupported("quantize with a non-unit exponent")
        p = u.extra[1]
        r = kwargs.get("rounding")
        mode = rounding_mode(r)
        return mkreal(prelude.QFUNS[mode](obj.term, p))
    if meth == "sqrt":
        r = st.fresh(z3.RealSort(), "sqrt")
        st.assume(z3.And(r >= 0, r * r == obj.term))
        return mkreal(r)
    if meth == "is_finite":
        return mkbool(z3.And(obj.term != INF, obj.term != -INF))
    raise Unsupported("Decimal.%s" % meth)


def rounding_mode(r):
    if r is None or r.ty == "NoneT":
        return "q_he"
    if r.ty == "Type" and r.term[0] == "external":
        tail = r.term[1].split(".")[-1]
        m = {"ROUND_DOWN": "q_down", "ROUND_UP": "q_up", "ROUND_HALF_EVEN": "q_he"}
        if tail in m:
            return m[tail]
    if not z3.is_false(r.none) and r.term is not None:
        raise Unsupported("symbolic rounding mode")
    raise Unsupported("rounding mode %s" % (r.term,))


def dt_method(I, st, meth, obj, args, kwargs, node):
    if meth == "replace":
        return obj
    if meth == "timestamp":
        return mkreal(z3.ToReal(obj.term) / 1000000)
    if meth in ("isoformat", "strftime"):
        return Val("Str", st.fresh(StrS, "dtstr"))
    if meth == "utctimetuple":
        return Val("Any", st.fresh(RefS, "tt"), extra=("timetuple", obj.term))
    if meth == "astimezone":
        return obj
    raise Unsupported("datetime.%s" % meth)


def str_method(I, st, meth, obj, args, kwargs, node):
    if meth in ("format", "lower", "upper", "strip", "replace", "join", "encode", "decode", "rstrip", "lstrip"):
        return Val("Str", st.fresh(StrS, "s_" + meth))
    if meth in ("startswith", "endswith"):
        return mkbool(st.fresh(z3.BoolSort(), "s_" + meth))
    raise Unsupported("str.%s" % meth)


# =======================================================================================
# external callables (by dotted name)
# =======================================================================================
def call_external(I, st, dotted, args, kwargs, node):
    tail = dotted.split(".")[-1]
    if tail == "Decimal" and "decimal" in dotted or dotted == "decimal.Decimal":
        if not args:
            return mkreal(0)
        v = args[0]
        b = strip_opt(v.ty)
        if b in ("Int", "Bool"):
            return I.coerce(st, v, "Real")
        if b == "Real":
            return v
        if b == "Str":
            lit = node.args[0] if node is not None and node.args else None
            if isinstance(lit, ast.Constant) and isinstance(lit.value, str):
                s = lit.value.strip()
                if s.lower() in ("infinity", "inf"):
                    return mkreal(INF)
                if s.lower() in ("-infinity", "-inf"):
                    return mkreal(-INF)
                from fractions import Fraction
                from decimal import Decimal as D
                return mkreal(z3.RealVal(str(Fraction(D(s)))))
            if v.extra and v.extra[0] == "str_of_real":
                return mkreal(v.extra[1])
            return mkreal(real_of_str(v.term))
        raise Unsupported("Decimal(%s)" % ty_str(v.ty))
    if dotted == "datetime.datetime.strptime":
        # assumed: the text parses (ValueError not modelled); the value is an uninterpreted function of the text
        I.drops.add("datetime.strptime(text, fmt): uninterpreted dt_of_str(text); ValueError on malformed text not modelled")
        return Val("DT", dt_of_str(args[0].term))
    if dotted == "itertools.chain":
        return Val("View", ("chain", list(args)))
    if dotted in ("copy.copy", "copy.deepcopy"):
        v = args[0]
        base = strip_opt(v.ty)
        if is_ref(base):
            kd = REG.get(base[1])
            if kd.kind == "dict":
                return I.new_dict(st, base[1], dom=I.dom_of(st, v), vals=I.vals_of(st, v))
        raise Unsupported("copy of %s" % ty_str(v.ty))
    if dotted == "uuid.uuid4":
        from .vtypes import IdS
        r = st.fresh(IdS, "uuid")
        st.ghost_fresh_ids.append(r) if hasattr(st, "ghost_fresh_ids") else None
        return Val("Any", st.fresh(RefS, "uuidobj"), extra=("uuid", r))
    if dotted == "time.time":
        from . import asyncio_model
        return asyncio_model.clock_read(I, st, "time")
    if dotted == "dataclasses.asdict":
        return Val("Any", st.fresh(RefS, "asdict"))
    if dotted in ("datetime.timedelta",):
        total = z3.IntVal(0)
        units = {"days": 86400 * 10**6, "seconds": 10**6, "microseconds": 1, "milliseconds": 1000, "minutes": 60 * 10**6,
                 "hours": 3600 * 10**6, "weeks": 7 * 86400 * 10**6}
        order = ["days", "seconds", "microseconds", "milliseconds", "minutes", "hours", "weeks"]
        given = dict(zip(order, args))
        given.update(kwargs)
        for k, v in given.items():
            b = strip_opt(v.ty)
            if b == "Int":
                total = total + v.term * units[k]
            elif b == "Real":
                total = total + z3.ToInt(v.term * units[k])
            else:
                raise Unsupported("timedelta arg")
        return Val("TD", total)
    if dotted == "heapq.heappush":
        h, x = args
        kd = I.kd_of(h)
        if kd.kind != "set":
            raise Unsupported("heapq on a real list: declare the field as Set[...] with REG.heap_key")
        I.set_dom(st, h, z3.Store(I.dom_of(st, h), x.term, True))
        return NONE
    if dotted == "heapq.heappop":
        h = args[0]
        r = I.heap_min(st, h, node)
        I.set_dom(st, h, z3.Store(I.dom_of(st, h), r.term, False))
        return r
    if dotted.startswith("asyncio.") or dotted.startswith("logging.") or dotted.startswith("aiohttp") \
            or dotted.startswith("contextlib.") or dotted.startswith("heapq.") or dotted.startswith("platform.") \
            or dotted.startswith("signal.") or dotted.startswith("json.") or dotted.startswith("calendar.") \
            or dotted.startswith("codecs.") or dotted.startswith("csv.") or dotted.startswith("dateutil") \
            or dotted.startswith("datetime.") or dotted.startswith("urllib") or dotted.startswith("hmac") \
            or dotted.startswith("hashlib") or dotted.startswith("os.") or dotted.startswith("abc."):
        from . import asyncio_model
        return asyncio_model.call_external(I, st, dotted, args, kwargs, node)
    raise Unsupported("external call %s (line %s)" % (dotted, getattr(node, "lineno", "?")))
