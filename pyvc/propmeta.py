"""Per-property metadata used by check.py (levels, clauses not covered, assumptions)."""
from .props import LEVELS, NOT_COVERED, BOUNDED, ASSUMPTIONS, EXTRA_TRUST

COMMON_BT = [
    "Decimal arithmetic is exact rational arithmetic (context precision, NaN, signed zero not modelled)",
    "ownership discipline: a dict/list/set referenced from a field (or stored as a dict value) is not referenced from any other field",
    "lending is collateral-free (ghost Loan.no_collateral, true of MarginLoan, the only Loan in the repo): exact hold bookkeeping across loans is proved for such loans",
    "uuid4().hex is fresh: never a key of an existing dict",
    "the configuration (Config) is fixed before the backtest starts; its ghost maps gp/gs mirror the look-up functions (class invariant, get_* verified under it)",
    "user-defined subclasses of the abstract strategy / rule / order classes satisfy the base contracts (open world: only the base contract is used for them)",
    "the simulated clock equals the time of the event being handled (proved separately for the dispatcher, C12)",
]
for p in ("C01", "C02", "C04", "C05", "C06", "C07", "C08", "C09", "C10", "C11"):
    ASSUMPTIONS.setdefault(p, []).extend(COMMON_BT)
    LEVELS.setdefault(p, "proof")

NOT_COVERED["C01"] = ["the closed form `ledger = sum over orders (fills + fees) - sum over loans (paid interest)` is by construction: the ghost ledger is updated exactly in the sole writers of those maps (Order.add_fill, Loan.add_paid_interest); the sum itself is not re-derived",
                      "OrderManager._repay_loans (auto-repay loop) is under a trusted contract"]
NOT_COVERED["C02"] = ["`borrowed == summed principal of open loans` as a finite-sum invariant (per-operation deltas are proved: create +principal, repay/cancel -principal, order processing never touches borrowed)",
                      "negative initial balances start with borrowed > 0 and no loan (F-C02-1, a tested feature)"]
NOT_COVERED["C05"] = ["producer side of ExchangeObjectContainer.get_open (generator) -- consumer-side contract used", "Exchange.get_orders / get_open_orders listings (comprehensions over views)",
                      "time order of pushed events (needs the dispatcher clock monotonicity, C12)"]
NOT_COVERED["C06"] = ["reservation formula is proved for the four order types and the two fee schemes of the repo (user subclasses: only non-negativity)"]
NOT_COVERED["C07"] = []
NOT_COVERED["C09"] = []
