"""Per-property metadata used by check.py (levels, clauses not covered, assumptions)."""
from .props import LEVELS, NOT_COVERED, BOUNDED, ASSUMPTIONS, EXTRA_TRUST

COMMON_BT = [
    "Decimal arithmetic is exact rational arithmetic (context precision, NaN, signed zero not modelled)",
    "ownership discipline: a dict/list/set referenced from a field (or stored as a dict value) is not referenced from any other field",
    "lending is collateral-free (ghost Loan.no_collateral, true of MarginLoan, the only Loan in the repo): exact hold bookkeeping across loans is proved for such loans",
    "uuid4().hex is fresh: never a key of an existing dict",
    "the configuration (Config) is fixed before the backtest starts; its ghost maps gp/gs mirror the look-up functions (class invariant, get_* verified under it)",
    "user-defined subclasses of the abstract strategy / rule / order classes satisfy the base contracts (open world: only the base contract is used for them)",
    "the simulated clock equals the time of the event being handled (proved separately for the dispatcher, C12)",
]
for p in ("C01", "C02", "C04", "C05", "C06", "C07", "C08", "C09", "C10", "C11"):
    ASSUMPTIONS.setdefault(p, []).extend(COMMON_BT)
    LEVELS.setdefault(p, "proof")

NOT_COVERED["C01"] = ["the closed form `ledger = sum over orders (fills + fees) - sum over loans (paid interest)` is by construction: the ghost ledger is updated exactly in the sole writers of those maps (Order.add_fill, Loan.add_paid_interest); the sum itself is not re-derived",
                      "OrderManager._repay_loans (auto-repay loop) is under a trusted contract"]
NOT_COVERED["C02"] = ["`borrowed == summed principal of open loans` as a finite-sum invariant (per-operation deltas are proved: create +principal, repay/cancel -principal, order processing never touches borrowed)",
                      "negative initial balances start with borrowed > 0 and no loan (F-C02-1, a tested feature)"]
NOT_COVERED["C05"] = ["producer side of ExchangeObjectContainer.get_open (generator) -- consumer-side contract used", "Exchange.get_orders / get_open_orders listings (comprehensions over views)",
                      "time order of pushed events (needs the dispatcher clock monotonicity, C12)"]
NOT_COVERED["C06"] = ["reservation formula is proved for the four order types and the two fee schemes of the repo (user subclasses: only non-negativity)"]
NOT_COVERED["C07"] = []
NOT_COVERED["C09"] = []

COMMON_DISP = [
    "asyncio contract (assumed): asyncio.wait returns (done, pending) partitioning the set it was given, done tasks are finished, without timeout done is non-empty and equals the set for ALL_COMPLETED; gather awaits all children, raises the first exception unless return_exceptions; gather starts children in argument order; Task.done() is monotone; cancel() only requests cancellation",
    "heapq contract (assumed): heappush/heappop keep the heap, heappop and index 0 give an element with minimal key; the heap list is abstracted to the set of its elements (index -1 is an arbitrary element)",
    "interference (rely) at suspension points: user code and other tasks use the dispatcher's public API only (schedule, stop, push events to sources); they never write the private clock, the subscription tables or pop the scheduler queue; stop is sticky",
    "a coroutine's precondition is demanded where the coroutine object is created (handed to the pool / gather); its stability until the coroutine starts is argued in DESIGN, not machine-checked",
    "dt.utc_now() / time.time() are monotone ghost clocks",
    "handlers, jobs and idle handlers are opaque coroutines that may suspend, raise any Exception or be cancelled",
]
for p in ("C03", "C12", "C13", "C14", "C15"):
    ASSUMPTIONS.setdefault(p, []).extend(COMMON_DISP)
    LEVELS.setdefault(p, "proof")
NOT_COVERED["C12"] = ["'all events of all sources are delivered' is partial correctness (termination of a run is not proved)",
                      "global non-decreasing order is carried by the clock: events of a pass have when <= clock and the clock never moves backwards; `when == clock` for every delivered event needs the sources' own monotonicity (hypothesis of the property) and is not derived",
                      "exactly-once is proved slot-wise for the multiplexer (no_loss / consumed); the hand-over `_event_handlers.get(source)` -> EventDispatch.handlers is by inspection of one expression",
                      "tie order between sources: proved for the multiplexer (pop serves the source subscribed first among due events of equal time; the dict's insertion order is a ghost rank); that subscribe() preserves the order across the two tables is by the `add` contract only"]
NOT_COVERED["C13"] = ["exactly-once across a whole run is per call: each call of _dispatch_scheduled drains every job due at its bound, pop removes exactly one minimal job; the final drain bound is >= every queued job (peek_last = max)",
                      "'in non-decreasing scheduled-time order' holds per pop (a minimum of the queue at that time); jobs scheduled into the past by handlers run late by design",
                      "a heap list manipulated other than through heapq (append, sort, ...) is outside the set abstraction: reported as undecided, not as a violation"]
NOT_COVERED["C14"] = ["EventDispatcher.run (signal handlers, two async-with task groups, asynccontextmanager): phase order, finalize-exactly-once and 'handlers in flight are cancelled, not awaited' are not under contract in the committed machinery -- a contract exists (contracts/attic_run.py) but its 243 paths / 5402 obligations did not discharge within 16 CPU-hours",
                                            "bounded concurrency is the TaskPool invariant |_tasks| <= _max_size under both interference models; that user coroutines go through the pool is proved for idle handlers (_on_idle: ghost trace of the gathered batch) and is by construction for events / jobs (_dispatch_event / _execute_scheduled are only ever handed to TaskPool.push in the verified loops)"]
NOT_COVERED["C15"] = ["'every event and job is eventually dispatched once due' is liveness (fairness of the asyncio loop, termination of handlers): not covered",
                      ]
LEVELS["C14"] = "other"

LEVELS["C19"] = "proof"
ASSUMPTIONS["C19"] = [
    "Decimal(text) and datetime.strptime(text, fmt) are uninterpreted functions of the text (dec / strp); malformed text (InvalidOperation, ValueError) is not modelled",
    "every datetime is timezone-aware; datetimes are integers (microseconds), timedeltas too; float arithmetic in main() (timestamp() % duration) is real arithmetic",
    "a trade is (when, price, amount) with price > 0 and amount > 0 (precondition of push_trade); prices are compared exactly",
    "interference for RealTimeTradesToBar.main: while it sleeps other tasks push trades / pop bar events, keeping the representation invariant rt_wf",
]
NOT_COVERED["C19"] = [
    "csv.EventSource / load_and_yield / load_sort_and_yield (file reading, csv.DictReader, sorted()) and open_file_with_detected_encoding (byte-order-mark table): not under contract -- 'in time order when sorting is requested' and the encoding clause are not decided",
    "yahoo.RowParser (adjusted close / sanitize) and the exchange-specific wrappers beyond the common RowParser",
    "'emits bars in time order at the end of their window': one bar per flush stamped with the window's last instant is proved; the timing of the flush is the sleep computation in main() (not specified)",
    "sum of amounts is the recursive spec function wsum (axioms instantiated by the checker, not proved from a definition of finite sums)",
]

NOT_COVERED["C03"] = [
    "clause 1 (every fill later than the submission) is carried by four obligations -- the pass consists of events that existed when it began (no_late_joiners, exposed F-C03-1, fixed), the exchange matches orders before it re-publishes the bar (matched_before_republish), a fill is stamped with the bar event's time (fill_time), submitting an order never fills it (add_order) -- plus the hypothesis that the clock equals the time of the event being handled; the induction over passes that composes them is argued in DESIGN, not machine-checked",
    "clause 2 (results independent of max_concurrent, hash seed, run): the repo-side dependence on the pool size is what no_late_joiners removes; that ready tasks start in creation order and a non-suspending handler runs to completion is the asyncio assumption; set iteration order is covered in that every loop over a set/dict is proved for an arbitrary order",
    "tie order between sources with equal timestamps is proved for EventMultiplexer.pop (earliest subscribed first)",
]
LEVELS["C10"] = "other"
NOT_COVERED["C10"] = [
    "the three sums (used margin, equity, outstanding interest) are uninterpreted spec functions of the maps; _calculate_margin_level is under a TRUSTED contract stating its definition in terms of them",
    "that the rule is consulted on both borrowing paths: AccountBalances.update runs every pushed rule (proved, C06/C07) and MarginLoans.set_exchange_context pushes CheckMarginLevel (one statement, by inspection)",
    "F-C10-1 (known finding): margin level exactly 0 with margin in use is let through",
]
ASSUMPTIONS.setdefault("C10", [])

NOT_COVERED["C04"] = [
    "the rounded price bound is proved for limit / stop-limit fills at the point where the fill is recorded (site assertion at Order.add_fill) from _round_balance_updates.price_kept; the other price clauses (never better than the bar's extreme, market/stop inside the range, not better than open / stop) are proved on the unrounded amounts returned by get_balance_updates -- their rounded forms follow from price_kept by the same instantiation but are not stated as separate obligations",
    "completeness ('completely filled by the next bar ...') is the `complete` clause of each get_balance_updates contract (amount = pending when the liquidity is infinite / sufficient); 'ample funds' (the account update succeeding) is not part of it",
    "user-defined order subclasses: only the type-conditional base contract",
]
NOT_COVERED["C08"] = [
    "'every reported available, on-hold and borrowed balance is a multiple of the precision' is proved per fill (the maps recorded by add_fill and applied to the account are on the grid: _round_balance_updates.grid, _round_fees.grid, order_grid_base); the account-level invariant over a whole history (initial balances and loan amounts on the grid) is not stated as one invariant",
    "the per-bar liquidity cap is the LiquidityStrategy contract (used <= granted, reset by on_bar) plus _process_order.liquidity (used grows by exactly the filled base amount); the sum over all orders of a bar is by that counter, not by a finite sum",
]
NOT_COVERED["C11"] = [
    "'when an auto-repay order closes, open loans in the symbol it acquired are repaid largest first as far as funds allow': OrderManager._repay_loans is under a TRUSTED contract (list.sort with key/reverse and the try/except loop are not verified); the trusted contract also assumes that repay_loan raises nothing but NotEnoughBalance there (a NoPrice from interest conversion would escape)",
    "LoanManager.get_loans / get_loan listings are TRUSTED (iteration plumbing)",
    "'loans are closed only by ...' is the frame of every contract: Loan._is_open is in the modifies clause of LoanManager.repay_loan and cancel_loan only (cancel_loan asserts the loan was created at the current instant: the rollback of an auto-borrow)",
]

LEVELS["C17"] = "other"
ASSUMPTIONS["C17"] = ["Decimal(text) is the uninterpreted dec(text); strings are uninterpreted symbols with distinct literals"]
NOT_COVERED["C17"] = [
    "encoding side: 'every amount and price is transmitted with exactly that numeric value in plain fixed-point notation': Decimals are modelled as reals, so the text produced by str(Decimal) (exponent notation for small values) cannot be expressed -- set_optional_params and the Bitstamp create_*_order formatters are not under contract",
    "timestamps: fromtimestamp(ms / 1e3) goes through binary floating point; floats are treated as reals here, so loss of precision cannot be decided",
    "endpoint / side / symbol selection per client method, the JSON wrapper classes and the websocket payload decoders: not under contract",
    "what is decided: the Binance order-status, order-list-status and side look-up tables are total on the documented values and refuse anything else; get_optional_decimal returns the parsed value or None",
]
