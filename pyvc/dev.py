"""development driver: python3-vt -m pyvc.dev <qualname-substring> ... [-v]"""
import sys, time
import z3
from .repo import Repo
from .interp import Interp
from .contracts import DB
from . import verify, solve


def _call(k):
    return main.work(k)


def main():
    import contracts
    contracts.load_all()
    repo = Repo()
    I = Interp(repo, DB)
    pats = sys.argv[1:]
    verbose = "-v" in pats
    only = [p[7:] for p in pats if p.startswith("--only=")]
    pats = [p for p in pats if p != "-v" and not p.startswith("--only=")]
    tot = bad = 0
    for key, c in sorted(list(DB.contracts.items()) + list(DB.variants.items())):
        if pats and not any(p in key for p in pats):
            continue
        if not c.verify:
            continue
        fi = repo.functions.get(c.qualname)
        if fi is None:
            print("MISSING", c.qualname)
            continue
        if fi.is_abstract and c.abstract:
            continue
        results = [verify.verify_function(I, c, fi)]
        bc, bfi = verify.find_base_contract(I, c, fi)
        if bc is not None:
            results.append(verify.verify_refinement(I, c, fi, bc, bfi))
        for res in results:
            print("== %s paths=%d obligations=%d outcomes=%s %.1fs" % (res.key, res.paths, len(res.obligations), res.outcomes, res.seconds))
            ends = {k: v for k, v in getattr(res, "path_ends", {}).items() if "loop iteration done" not in k}
            if ends:
                print("   abandoned paths:", ends)
            if res.error:
                print("   ERROR:", res.error)
                bad += 1
            t0 = time.time()
            todo = [(i, ob) for i, ob in enumerate(res.obligations) if not ob.meta.get("trivial")
                    and (not only or any(o in ob.name for o in only))]
            out = {}
            import multiprocessing as mp
            def work(k):
                i, ob = todo[k]
                return solve.decide(ob, res.str_axioms, 30000, True, name="%d:%s" % (i, ob.name))[:6]
            main.work = work
            if len(todo) > 4:
                with mp.get_context("fork").Pool(16) as pool:
                    for r in pool.imap_unordered(_call, range(len(todo))):
                        out[r[0]] = r
            else:
                for k in range(len(todo)):
                    r = work(k)
                    out[r[0]] = r
            for name, r in sorted(out.items(), key=lambda kv: int(kv[0].split(":")[0])):
                tot += 1
                if r[1] != "unsat":
                    bad += 1
                    ob = res.obligations[int(name.split(":")[0])]
                    print("   %-7s %s  [%s] path=%s clause=%s" % (r[1].upper(), name, r[2], ob.meta.get("path"), ob.meta.get("clause")))
                    print("           tried:", [(a, b, round(c, 1)) for a, b, c in r[5]])
                    if verbose and r[4]:
                        for k, v in sorted(r[4].items()):
                            print("        ", k, "=", v[:200])
                elif verbose:
                    print("   ok      %s (%.2fs %s)" % (name, r[3], r[2]))
    print("TOTAL obligations=%d not-discharged=%d" % (tot, bad))


if __name__ == "__main__":
    main()
