"""Generators, `yield`, `with` on @contextmanager functions (filled in with the dispatcher phase)."""
from .state import Unsupported


def exec_yield(I, st, node):
    raise Unsupported("yield (line %s)" % getattr(node, "lineno", "?"))


def exec_with(I, st, node, is_async=False):
    raise Unsupported("with statement (line %s)" % getattr(node, "lineno", "?"))


def exec_for_gen(I, st, node, payload):
    raise Unsupported("for over a generator (line %s)" % getattr(node, "lineno", "?"))


def exec_for_filter(I, st, node, payload):
    raise Unsupported("for over filter() (line %s)" % getattr(node, "lineno", "?"))
