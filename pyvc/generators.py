"""Generators, `yield`, `with` / `async with` (context managers written as generators or as __aenter__/__aexit__ classes).

A generator function is never run "lazily": its body is executed in its own frame and every `yield v` runs the consumer
(the body of the `with` statement, or one iteration of the `for` loop that iterates the generator) at that very point.
Exceptions raised by the consumer therefore propagate through the generator's `try/finally` exactly as CPython throws
them into the generator at the yield (contextlib semantics); a missing try/finally shows up as code after the yield not
being executed.
"""
import ast
import z3

from .vtypes import (RefS, StrS, NULL, Val, NONE, REG, sort_of, is_ref, is_opt, strip_opt, FALSE, TRUE, ty_str)
from .state import (Frame, PathEnd, Unsupported, ReturnExc, BreakExc, ContinueExc, RaiseExc, ExcVal)
from . import specs, calls


class _YieldHandler:
    def __init__(self, fn):
        self.fn = fn
        self.count = 0


def exec_yield(I, st, node):
    """`yield v` inside a generator frame: hand v to the consumer registered for this frame"""
    h = getattr(st.frame, "yield_handler", None)
    f = st.frame
    while h is None and f is not None:
        f = f.parent
        h = getattr(f, "yield_handler", None) if f is not None else None
    if h is None:
        raise Unsupported("yield outside a supported generator use (line %s)" % getattr(node, "lineno", "?"))
    v = I.eval(st, node.value) if node.value is not None else NONE
    h.count += 1
    return h.fn(v)


def run_generator(I, st, fi, argmap, on_yield):
    """execute generator function fi with arguments; on_yield(value) is called at every yield (in the generator frame
    context; it must switch frames itself).  Returns the number of yields on this path."""
    fr = Frame(fi, fi.module)
    fr.vars.update(argmap)
    fr.yield_handler = _YieldHandler(on_yield)
    st.frames.append(fr)
    st.depth += 1
    try:
        try:
            I.exec_block(st, fi.node.body)
        except ReturnExc:
            pass
    finally:
        st.depth -= 1
        st.frames.pop()
    return fr.yield_handler.count


def _run_in_frame(I, st, frame, fn):
    """run fn() with `frame` as the current frame (the consumer's frame), then restore the generator frames"""
    saved = st.frames
    idx = saved.index(frame)
    st.frames = saved[: idx + 1]
    try:
        return fn()
    finally:
        st.frames = saved


def exec_with(I, st, node, is_async=False):
    if len(node.items) != 1:
        # nested items: `with a, b:` == with a: with b:
        inner = ast.With(items=node.items[1:], body=node.body, lineno=node.lineno, col_offset=node.col_offset) if not is_async \
            else ast.AsyncWith(items=node.items[1:], body=node.body, lineno=node.lineno, col_offset=node.col_offset)
        outer = type(node)(items=node.items[:1], body=[inner], lineno=node.lineno, col_offset=node.col_offset)
        return exec_with(I, st, outer, is_async)
    item = node.items[0]
    cm = I.eval(st, item.context_expr)
    consumer = st.frame
    if cm.ty == "CtxMgr":
        fi, argmap = cm.term
        c = I.db.get(fi.qualname)
        if c is not None and not c.inline and not (I.current_target == fi.qualname):
            raise Unsupported("context manager %s has a contract; only inlining is supported" % fi.qualname)
        I.inlined.add(fi.qualname)

        def on_yield(v):
            def body():
                if item.optional_vars is not None:
                    I.assign(st, item.optional_vars, v)
                I.exec_block(st, node.body)
            _run_in_frame(I, st, consumer, body)
            return NONE
        n = run_generator(I, st, fi, argmap, on_yield)
        if n != 1:
            # contextlib raises RuntimeError("generator didn't yield") / "didn't stop"
            I.raise_(st, "RuntimeError", node)
        return
    base = strip_opt(cm.ty)
    if is_ref(base):
        enter = I.find_method(base[1], "__aenter__" if is_async else "__enter__")
        exit_ = I.find_method(base[1], "__aexit__" if is_async else "__exit__")
        if enter is not None and exit_ is not None:
            from . import asyncio_model
            v = calls.call_repo(I, st, enter, [cm], {}, node)
            if v.ty == "Coro":
                v = asyncio_model.await_value(I, st, v, node)
            if item.optional_vars is not None:
                I.assign(st, item.optional_vars, v)
            exc = None
            try:
                I.exec_block(st, node.body)
            except RaiseExc as r:
                exc = r
            except (ReturnExc, BreakExc, ContinueExc):
                r2 = calls.call_repo(I, st, exit_, [cm, NONE, NONE, NONE], {}, node)
                if r2.ty == "Coro":
                    asyncio_model.await_value(I, st, r2, node)
                raise
            if exc is None:
                r2 = calls.call_repo(I, st, exit_, [cm, NONE, NONE, NONE], {}, node)
                if r2.ty == "Coro":
                    asyncio_model.await_value(I, st, r2, node)
                return
            ev = Val("Exc", st.fresh(RefS, "exc"), extra=exc.exc)
            tv = Val("Type", ("exc", exc.exc.cls))
            r2 = calls.call_repo(I, st, exit_, [cm, tv, ev, Val("Any", st.fresh(RefS, "tb"))], {}, node)
            if r2.ty == "Coro":
                r2 = asyncio_model.await_value(I, st, r2, node)
            # a truthy return value swallows the exception
            if r2.ty != "NoneT" and st.decide(I.truthy(st, r2)):
                return
            raise exc
    raise Unsupported("with statement on %s (line %s)" % (ty_str(cm.ty), node.lineno))


# ---------------------------------------------------------------------------------------------------------------------
# for x in <generator call>: consumer side by contract (yields=...), or producer inlined (inline_generator=True)
# ---------------------------------------------------------------------------------------------------------------------
def exec_for_filter(I, st, node, payload):
    _, fn, src = payload
    if src.ty != "Gen":
        raise Unsupported("for over filter() of a non-generator (line %s)" % node.lineno)
    return exec_for_gen(I, st, node, src.term, filt=fn)


def exec_for_gen(I, st, node, payload, filt=None):
    gfi, gargs = payload
    gc = I.db.get(gfi.qualname)
    if gc is not None and gc.yields and gc.yields.get("inline"):
        return exec_for_gen_inline(I, st, node, gfi, gargs, filt)
    if gc is None or not gc.yields:
        return exec_for_gen_inline(I, st, node, gfi, gargs, filt)
    return exec_for_gen_contract(I, st, node, gfi, gargs, gc, filt)


def exec_for_gen_inline(I, st, node, gfi, gargs, filt):
    """run the generator's own code; every yield runs one iteration of the consumer's loop body.  The generator's loop is
    cut at the invariant of the *consumer's* loop (same ordinal bookkeeping as any other loop of the consumer)."""
    from . import loops
    consumer = st.frame
    k, ls = loops.loop_spec(I, st, node)
    I.inlined.add(gfi.qualname)

    def on_yield(v):
        def body():
            if filt is not None:
                t = I.truthy(st, calls.call_value(I, st, filt, [v], {}, node))
                if not st.decide(t):
                    return
            I.assign(st, node.target, v)
            try:
                I.exec_block(st, node.body)
            except ContinueExc:
                pass
        _run_in_frame(I, st, consumer, body)
        return NONE
    # the generator's loops use the consumer's loop spec
    saved = getattr(st, "gen_loop_override", None)
    st.gen_loop_override = (gfi.qualname, consumer, k, ls, node)
    try:
        try:
            run_generator(I, st, gfi, gargs, on_yield)
        except BreakExc:
            return
    finally:
        st.gen_loop_override = saved
    I.exec_block(st, node.orelse)


def exec_for_gen_contract(I, st, node, gfi, gargs, gc, filt=None):
    """consumer side of a generator by contract: the loop is cut at its invariant; the generator's contract says what a
    yielded item looks like (`yields.facts`, over `item` and `SEEN`), what the generator itself may modify and what
    holds at exhaustion (`ensures`, may mention SEEN = the set of items yielded)."""
    from . import loops
    k, ls = loops.loop_spec(I, st, node)
    genv = dict(gargs)
    site = "%s.loop[%d].gen[%s]" % (I.short(st.frame.func), k, gfi.name)
    for cl in gc.requires:
        g = specs.eval_clause(I, st, cl, genv, gfi)
        st.oblige("%s.pre[%s]" % (site, cl.label), g, meta={"kind": "call_pre", "clause": cl.text})
    entry_heap = dict(st.heap)
    entry_alloc = st.alloc
    entry_env = dict(loops.spec_env(I, st, {}))
    names = loops.assigned_names(node.body) | {n.id for n in ast.walk(node.target) if isinstance(n, ast.Name)}
    ity = REG.parse(calls.subst_params(gc.yields["type"], gargs.get("self")))
    setty = ("MSet", ity)
    empty = z3.K(sort_of(ity), FALSE)

    def mk_env(extra):
        return loops.add_entry(loops.spec_env(I, st, extra), entry_env, entry_heap, st)

    def gen_havoc():
        loops.havoc(I, st, ls, entry_env, names)
        locs = calls.modifies_locations(I, st, gc, genv, gc.modifies)
        calls.havoc_locations(I, st, locs)

    loops.check_inv(I, st, ls, k, mk_env({"SEEN": Val(setty, empty)}), "entry")
    b = st.choose(2, "iterate-or-exit")
    saved_old = (st.old_heap, st.old_alloc)
    if b == 0:
        gen_havoc()
        seen = st.fresh(z3.ArraySort(sort_of(ity), z3.BoolSort()), "seen")
        loops.assume_inv(I, st, ls, mk_env({"SEEN": Val(setty, seen)}))
        item = st.fresh_val(ity, "item")
        st.assume(z3.Not(z3.Select(seen, item.term)))
        fenv = dict(genv)
        fenv.update(item=item, SEEN=Val(setty, seen))
        st.old_heap, st.old_alloc = entry_heap, entry_alloc
        try:
            for cl in gc.yields.get("facts", []):
                st.assume(specs.eval_clause(I, st, specs_clause(cl), fenv, gfi))
        finally:
            st.old_heap, st.old_alloc = saved_old
        if filt is not None:
            st.spec_depth += 1
            try:
                t = I.truthy(st, calls.call_value(I, st, filt, [item], {}, node))
            finally:
                st.spec_depth -= 1
            st.assume(t)
        if not st.feasible():
            raise PathEnd("no item")
        I.assign(st, node.target, item)
        try:
            I.exec_block(st, node.body)
        except ContinueExc:
            pass
        except BreakExc:
            return
        seen2 = z3.Store(seen, item.term, True)
        loops.check_inv(I, st, ls, k, mk_env({"SEEN": Val(setty, seen2)}), "preserved")
        raise PathEnd("loop iteration done")
    gen_havoc()
    seen = st.fresh(z3.ArraySort(sort_of(ity), z3.BoolSort()), "seen_all")
    loops.assume_inv(I, st, ls, mk_env({"SEEN": Val(setty, seen)}))
    fenv = dict(genv)
    fenv.update(SEEN=Val(setty, seen))
    st.old_heap, st.old_alloc = entry_heap, entry_alloc
    try:
        for cl in gc.ensures:
            st.assume(specs.eval_clause(I, st, cl, fenv, gfi))
    finally:
        st.old_heap, st.old_alloc = saved_old
    st.locals["SEEN_" + str(k)] = Val(setty, seen)
    I.exec_block(st, node.orelse)


def list_of_gen(I, st, node, payload):
    """list(<generator call>): the generator runs to exhaustion, every yielded value is appended.  The generator's loop is
    cut at the sidecar invariant registered under the key "list(<generator name>)"; the list under construction is
    visible to that invariant as RESULT."""
    gfi, gargs = payload
    consumer = st.frame
    c = I.active_contract(consumer.func)
    key = "list(%s)" % gfi.name
    if c is None or key not in c.loops:
        raise Unsupported("list(%s(...)) in %s has no invariant in the sidecar (loops key %r)" % (gfi.name, consumer.func.qualname, key))
    ls = c.loops[key]
    ety = None
    ann = gfi.node.returns
    if isinstance(ann, ast.Subscript) and ast.unparse(ann.value).split(".")[-1] in ("Generator", "Iterator", "Iterable"):
        a0 = ann.slice.elts[0] if isinstance(ann.slice, ast.Tuple) else ann.slice
        ety = calls.annotation_type(I, st, a0, gfi.module)
    if ety in (None, "Any"):
        raise Unsupported("list(%s(...)): the generator's element type is not annotated" % gfi.name)
    cls = "List[%s]" % ty_str(ety)
    REG.parse(cls)
    o = I.new_list(st, cls)
    consumer.vars["RESULT"] = o
    I.inlined.add(gfi.qualname)
    kd = REG.get(cls)

    def on_yield(v):
        def body():
            ln, items = I.list_len(st, o), I.list_items(st, o)
            I.set_list(st, o, ln + 1, z3.Store(items, ln, I.coerce(st, v, kd.V).term))
        _run_in_frame(I, st, consumer, body)
        return NONE
    saved = getattr(st, "gen_loop_override", None)
    st.gen_loop_override = (gfi.qualname, consumer, key, ls, node)
    try:
        run_generator(I, st, gfi, gargs, on_yield)
    finally:
        st.gen_loop_override = saved
        consumer.vars.pop("RESULT", None)
    return o


def specs_clause(cl):
    from .contracts import Clause
    if isinstance(cl, Clause):
        return cl
    if isinstance(cl, str):
        return Clause("fact", cl)
    return Clause(cl[0], cl[1])
