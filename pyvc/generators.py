"""Generators, `yield`, `with` on @contextmanager functions."""
import ast
import z3

from .vtypes import (RefS, StrS, NULL, Val, NONE, REG, sort_of, is_ref, is_opt, strip_opt, FALSE, TRUE, ty_str)
from .state import (Frame, PathEnd, Unsupported, ReturnExc, BreakExc, ContinueExc, RaiseExc)
from . import specs, calls


def exec_yield(I, st, node):
    raise Unsupported("yield (line %s)" % getattr(node, "lineno", "?"))


def exec_with(I, st, node, is_async=False):
    raise Unsupported("with statement (line %s)" % getattr(node, "lineno", "?"))


def exec_for_filter(I, st, node, payload):
    _, fn, src = payload
    if src.ty != "Gen":
        raise Unsupported("for over filter() of a non-generator (line %s)" % node.lineno)
    return exec_for_gen(I, st, node, src.term, filt=fn)


def exec_for_gen(I, st, node, payload, filt=None):
    """consumer side of a generator: the loop is cut at its invariant; the generator's contract says what an
    yielded item looks like (`yields.facts`, over `item` and `SEEN`), what the generator itself may modify and what
    holds at exhaustion (`ensures`, may mention SEEN = the set of items yielded)."""
    from . import loops
    gfi, gargs = payload
    gc = I.db.get(gfi.qualname)
    if gc is None or not gc.yields:
        raise Unsupported("generator %s has no `yields` contract" % gfi.qualname)
    k, ls = loops.loop_spec(I, st, node)
    genv = dict(gargs)
    site = "%s.loop[%d].gen[%s]" % (I.short(st.frame.func), k, gfi.name)
    for cl in gc.requires:
        g = specs.eval_clause(I, st, cl, genv, gfi)
        st.oblige("%s.pre[%s]" % (site, cl.label), g, meta={"kind": "call_pre", "clause": cl.text})
    entry_heap = dict(st.heap)
    entry_alloc = st.alloc
    entry_env = dict(loops.spec_env(I, st, {}))
    names = loops.assigned_names(node.body) | {n.id for n in ast.walk(node.target) if isinstance(n, ast.Name)}
    ity = REG.parse(calls.subst_params(gc.yields["type"], gargs.get("self")))
    setty = ("MSet", ity)
    empty = z3.K(sort_of(ity), FALSE)

    def mk_env(extra):
        return loops.add_entry(loops.spec_env(I, st, extra), entry_env, entry_heap, st)

    def gen_havoc():
        loops.havoc(I, st, ls, entry_env, names)
        locs = calls.modifies_locations(I, st, gc, genv, gc.modifies)
        calls.havoc_locations(I, st, locs)

    loops.check_inv(I, st, ls, k, mk_env({"SEEN": Val(setty, empty)}), "entry")
    b = st.choose(2, "iterate-or-exit")
    saved_old = (st.old_heap, st.old_alloc)
    if b == 0:
        gen_havoc()
        seen = st.fresh(z3.ArraySort(sort_of(ity), z3.BoolSort()), "seen")
        loops.assume_inv(I, st, ls, mk_env({"SEEN": Val(setty, seen)}))
        item = st.fresh_val(ity, "item")
        st.assume(z3.Not(z3.Select(seen, item.term)))
        fenv = dict(genv)
        fenv.update(item=item, SEEN=Val(setty, seen))
        st.old_heap, st.old_alloc = entry_heap, entry_alloc
        try:
            for cl in gc.yields.get("facts", []):
                st.assume(specs.eval_clause(I, st, specs_clause(cl), fenv, gfi))
        finally:
            st.old_heap, st.old_alloc = saved_old
        if filt is not None:
            st.spec_depth += 1
            try:
                t = I.truthy(st, calls.call_value(I, st, filt, [item], {}, node))
            finally:
                st.spec_depth -= 1
            st.assume(t)
        if not st.feasible():
            raise PathEnd("no item")
        I.assign(st, node.target, item)
        try:
            I.exec_block(st, node.body)
        except ContinueExc:
            pass
        except BreakExc:
            return
        seen2 = z3.Store(seen, item.term, True)
        loops.check_inv(I, st, ls, k, mk_env({"SEEN": Val(setty, seen2)}), "preserved")
        raise PathEnd("loop iteration done")
    gen_havoc()
    seen = st.fresh(z3.ArraySort(sort_of(ity), z3.BoolSort()), "seen_all")
    loops.assume_inv(I, st, ls, mk_env({"SEEN": Val(setty, seen)}))
    fenv = dict(genv)
    fenv.update(SEEN=Val(setty, seen))
    st.old_heap, st.old_alloc = entry_heap, entry_alloc
    try:
        for cl in gc.ensures:
            st.assume(specs.eval_clause(I, st, cl, fenv, gfi))
    finally:
        st.old_heap, st.old_alloc = saved_old
    if filt is not None:
        st.ghost["$filter_of_last_gen"] = filt
    st.locals["SEEN_" + str(k)] = Val(setty, seen)
    I.exec_block(st, node.orelse)


def specs_clause(cl):
    from .contracts import Clause
    if isinstance(cl, Clause):
        return cl
    if isinstance(cl, str):
        return Clause("fact", cl)
    return Clause(cl[0], cl[1])
