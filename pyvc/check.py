"""./check <property> [--tier quick|thorough] : decide one property on /repo's current working tree.

exit 0 = every obligation of the property discharged (KNOWN-FINDING lines printed for listed findings)
exit 1 = some obligation refuted: VIOLATION property=<id> replay=<path> [no-failing-input-found]
exit 2 = undecided (solver unknown on all back ends / function left the supported subset)
exit 3 = checker crash / vacuity guard tripped
"""
import argparse
import hashlib
import json
import multiprocessing as mp
import os
import sys
import time
import traceback

import z3

ROOT = os.path.dirname(os.path.dirname(os.path.abspath(__file__)))
# seeded-change runs redirect evidence / replay files so that the committed evidence is not overwritten
OUT = os.environ.get("PYVC_OUT", ROOT)

TRUSTED_BASE = [
    "pyvc itself (the VC generator in /verif/pyvc): unverified; mitigated by seeded-fault runs, the canary obligation and a second solver",
    "z3 4.x/5.1 (python API) and cvc5 1.0.3 (CLI) as SMT back ends",
    "python semantics assumed by the encoding: int=Int (unbounded), Decimal=Real (exact rational arithmetic; context "
    "precision/NaN/signed zero not modelled), float=Real (machine arithmetic treated as mathematical), datetime/timedelta=Int "
    "microseconds, str=uninterpreted sort with equality, dict=(dom,val) arrays with arbitrary iteration order, set=K->Bool, "
    "list=(len, Int->V), objects = Ref + one heap array per field",
    "Decimal.quantize modelled by uninterpreted q_down/q_up/q_he with ground-instantiated axioms (grid membership, sign, "
    "rounding bounds, fixpoint on grid points, grid closure under +,-,ite, uniqueness below one unit)",
    "Decimal('Infinity') is a constant INF larger than every finite Decimal input; arithmetic on it is rejected",
    "well-typed heap: values read from a field have the field's declared sidecar type and refer to allocated objects",
    "closed world for inlining: a repo method without contract is inlined only if no *registered* subclass overrides it",
    "extraction drops: logger.* calls and logs.StructuredMessage(...) arguments (assumed effect-free, non-raising), "
    "docstrings/comments, text of exception messages and f-strings, deprecation warnings",
]


def _worker(args):
    key, tier, chunk, nchunks = args
    from . import verify, solve
    G = _worker.G
    I, DB, repo = G["I"], G["DB"], G["repo"]
    c = DB.contracts.get(key) or DB.variants.get(key)
    fi = repo.functions.get(c.qualname)
    out = {"key": key, "qualname": c.qualname, "obligations": [], "error": None, "paths": 0, "outcomes": {}, "props": list(c.props)}
    if fi is None:
        out["error"] = "missing: function %s no longer exists in /repo" % c.qualname
        return out
    t0 = time.time()
    res = verify.verify_function(I, c, fi)
    out["has_ensures"] = bool(c.ensures) and not c.notes.startswith("never-returns")
    out["shape"] = getattr(res, "shape", None)
    out.update(paths=res.paths, outcomes=res.outcomes, error=res.error, sha=res.sha, loc=res.loc,
               inlined=sorted(res.inlined), used=sorted(res.used_contracts), drops=sorted(res.drops), gen_seconds=res.seconds)
    # vacuity: requires must be satisfiable
    if res.requires_formula is not None and res.error is None:
        s = z3.Solver()
        s.set("timeout", 5000)
        for f in res.requires_formula:
            s.add(f)
        out["requires_sat"] = str(s.check())
    timeout = 25000 if tier == "quick" else 240000
    all_obligations = list(res.obligations)
    if res.error is None:
        bc, bfi = verify.find_base_contract(I, c, fi)
        if bc is not None:
            rres = verify.verify_refinement(I, c, fi, bc, bfi)
            if rres.error:
                out["error"] = rres.error
            all_obligations += rres.obligations
            out["refines"] = bc.key
    out["chunk"] = (chunk, nchunks)
    out["n_generated"] = len(all_obligations)
    for i, ob in enumerate(all_obligations):
        if i % nchunks != chunk:
            continue
        rec = {"name": ob.name, "kind": ob.meta.get("kind"), "props": list(ob.meta.get("props") or c.props),
               "clause": ob.meta.get("clause"), "path": ob.meta.get("path"), "func": key, "trail": ob.meta.get("trail") or []}
        if ob.meta.get("trivial"):
            rec.update(status="unsat", backend="simplifier", seconds=0.0)
        else:
            try:
                r = solve.decide(ob, res.str_axioms, timeout, True, want_smt2=(i < 1))
                rec.update(status=r[1], backend=r[2], seconds=r[3], model=r[4], tried=r[5])
                if (r[1] != "unsat" or i < 1) and r[6]:
                    rec["smt2"] = r[6] if len(r[6]) < 60000 else r[6][:60000] + "\n; ... truncated"
                if tier == "thorough" and r[1] == "unsat" and i % 4 == 0:
                    # independent second opinion (cvc5) on a deterministic quarter of the discharged obligations; an
                    # answer `sat` from it is reported as a solver disagreement (undecided), `unknown` is just recorded
                    r2 = solve._solve_cvc5(r[6] or solve.build_full(ob, res.str_axioms), 20)
                    rec["second_solver"] = r2[0]
                    if r2[0] == "sat":
                        rec["status"] = "unknown"
                        rec["error"] = "solver disagreement: z3 unsat, cvc5 sat"
            except Exception as e:
                rec.update(status="error", backend="-", seconds=0.0, error="%s\n%s" % (e, traceback.format_exc()))
        out["obligations"].append(rec)
    # vacuity probe: for every proof goal that is reached at all, at least one of the paths reaching it must have
    # satisfiable hypotheses -- otherwise it was "proved" from a contradiction (typically an assumed callee postcondition
    # that cannot hold).  Feasibility is a property of the path: it is decided once per path, on the path's last
    # obligation (its hypotheses include those of every earlier obligation); the paths are spread over the chunks and
    # the verdict per goal is combined in main().
    if res.error is None:
        groups = {}
        last_of_path = {}
        for ob in all_obligations:
            pk = str(ob.meta.get("path"))
            last_of_path[pk] = ob
            nm = ob.name
            if ob.meta.get("trivial") or not any(t in nm for t in (".ensures[", ".preserved[", ".class_inv[")):
                continue
            groups.setdefault(nm, set()).add(pk)
        needed = sorted({pk for pks in groups.values() for pk in pks})
        path_ok = {}
        for i, pk in enumerate(needed):
            if i % nchunks != chunk:
                continue
            try:
                path_ok[pk] = not solve.hyps_refutable(last_of_path[pk], res.str_axioms, deep=(tier == "thorough"))
            except Exception:
                path_ok[pk] = True
        out["probe_groups"] = {nm: sorted(pks) for nm, pks in groups.items()} if chunk == 0 else None
        out["path_ok"] = path_ok
    out["seconds"] = time.time() - t0
    return out


def _worker_retry(args):
    key, tier, todo = args
    from . import verify, solve
    G = _worker.G
    I, DB, repo = G["I"], G["DB"], G["repo"]
    c = DB.contracts.get(key) or DB.variants.get(key)
    fi = repo.functions.get(c.qualname)
    res = verify.verify_function(I, c, fi)
    obs = list(res.obligations)
    bc, bfi = verify.find_base_contract(I, c, fi)
    if bc is not None and res.error is None:
        obs += verify.verify_refinement(I, c, fi, bc, bfi).obligations
    want = {(n, json.dumps(p)) for n, p in todo}
    out = {}
    for ob in obs:
        k = (ob.name, json.dumps(ob.meta.get("path")))
        if k not in want:
            continue
        try:
            r = solve.decide(ob, res.str_axioms, 45000 if tier == "quick" else 180000, True)
            out[k] = {"status": r[1], "backend": r[2], "seconds": r[3], "model": r[4], "tried": r[5]}
        except Exception as e:
            out[k] = {"status": "error", "error": str(e)}
    return key, out


def select_contracts(DB, repo, prop):
    keys = []
    for key, c in list(DB.contracts.items()) + list(DB.variants.items()):
        if prop in c.props or any(prop in cl.props for cl in c.ensures):
            keys.append(key)
    return sorted(keys)


def load_known(prop):
    known, fixed = [], []
    path = os.path.join(ROOT, "KNOWN_FINDINGS.txt")
    if os.path.exists(path):
        for line in open(path):
            line = line.strip()
            if not line or line.startswith("#"):
                continue
            kind, _, rest = line.partition(":")
            fields = {}
            toks = rest.strip().split(" ")
            what = []
            for t in toks:
                if "=" in t and not what and t.split("=")[0] in ("property", "obligation", "commit", "trail", "branch"):
                    k, v = t.split("=", 1)
                    fields[k] = v
                else:
                    what.append(t)
            fields["what"] = " ".join(what)
            # a finding is identified by its obligation (+ trail): the same obligation is part of every property whose
            # closure contains the function, so a listed finding applies to all of them
            (known if kind.strip() == "known" else fixed).append(fields)
    return known, fixed


def canary():
    """a deliberately false obligation must come back sat through the same solving path"""
    from . import solve
    from .state import Obligation
    x = z3.Real("canary_x")
    ob = Obligation("canary", [x > 0], x > 1)
    r = solve.decide(ob, [], 5000, False)
    return r[1] == "sat"


def main(argv=None):
    ap = argparse.ArgumentParser()
    ap.add_argument("prop")
    ap.add_argument("--tier", default=os.environ.get("VERIF_TIER", "quick"))
    ap.add_argument("--replay", default=None)
    ap.add_argument("--jobs", type=int, default=min(16, os.cpu_count() or 4))
    ap.add_argument("-v", action="store_true")
    a = ap.parse_args(argv)
    prop, tier = a.prop, a.tier
    if tier not in ("quick", "thorough"):
        tier = "quick"
    seed = int(os.environ.get("VERIF_SEED", "0") or 0)
    t0 = time.time()
    sys.path.insert(0, ROOT)
    try:
        import contracts
        contracts.load_all()
        from .repo import Repo
        from .interp import Interp
        from .contracts import DB
        from . import props as props_mod
        from . import propmeta  # noqa
        repo = Repo()
        I = Interp(repo, DB)
    except Exception:
        traceback.print_exc()
        print("CHECKER-CRASH while loading")
        return 3
    if a.replay:
        from . import replay
        return replay.run_replay(a.replay)
    if not canary():
        print("CHECKER-CRASH canary obligation was not refuted: solving path is broken")
        return 3
    keys = select_contracts(DB, repo, prop)
    verify_keys = []
    trusted = []
    for k in keys:
        c = DB.contracts.get(k) or DB.variants.get(k)
        fi = repo.functions.get(c.qualname)
        if c.trusted:
            trusted.append(k)
        elif not c.verify or (fi is not None and fi.is_abstract and c.abstract):
            trusted.append(k + " (base contract of an abstract method: assumed for user subclasses, overrides verified)")
        else:
            verify_keys.append(k)
    _worker.G = {"I": I, "DB": DB, "repo": repo}
    results = []
    if verify_keys:
        # big functions are split into chunks of obligations (each chunk re-generates the function's obligations, which is
        # cheap compared with discharging them); the obligation counts of the last run only steer the scheduling
        try:
            sizes = json.load(open(os.path.join(ROOT, "contracts", "SIZES.json")))
        except Exception:
            sizes = {}
        jobs = []
        for k in verify_keys:
            n = sizes.get(k, 40)
            nch = max(1, min(16, (n + 39) // 40))
            jobs += [(k, tier, c, nch) for c in range(nch)]
        jobs.sort(key=lambda j: -sizes.get(j[0], 40))
        ctx = mp.get_context("fork")
        parts = {}
        with ctx.Pool(processes=max(1, min(a.jobs, len(jobs)))) as pool:
            for r in pool.imap_unordered(_worker, jobs, chunksize=1):
                parts.setdefault(r["key"], []).append(r)
        for k, ps in parts.items():
            ps.sort(key=lambda r: r["chunk"][0])
            base = ps[0]
            base["path_ok"] = dict(base.get("path_ok") or {})
            for p in ps[1:]:
                base["path_ok"].update(p.get("path_ok") or {})
                base["obligations"] += p["obligations"]
                base["error"] = base["error"] or p["error"]
                base["seconds"] = max(base.get("seconds", 0), p.get("seconds", 0))
            if not base["error"] and len(base["obligations"]) != base.get("n_generated"):
                base["error"] = "crash: chunks cover %d of %d obligations" % (len(base["obligations"]), base.get("n_generated"))
            results.append(base)
        # second pass: obligations left `unknown` while all cores were busy are decided again with few workers and a long
        # budget (verdicts must not depend on the load of the machine)
        retry = []
        for r in results:
            todo = [(o["name"], o.get("path")) for o in r["obligations"] if o["status"] not in ("unsat", "sat", "error")]
            if todo and not r["error"]:
                # one job per obligation (they run side by side), at most 8 per run: the second pass is bounded
                for t in todo:
                    if len(retry) < 8:
                        retry.append((r["key"], tier, [t]))
        if retry:
            with ctx.Pool(processes=max(1, min(8, len(retry)))) as pool:
                for key, recs in pool.imap_unordered(_worker_retry, retry, chunksize=1):
                    for r in results:
                        if r["key"] != key:
                            continue
                        for o in r["obligations"]:
                            new = recs.get((o["name"], json.dumps(o.get("path"))))
                            if new is not None:
                                o.update(new)
                                o["retried"] = True
        new_sizes = dict(sizes)
        for r in results:
            new_sizes[r["key"]] = r.get("n_generated", len(r["obligations"]))
        if os.environ.get("PYVC_WRITE_SIZES"):
            json.dump(new_sizes, open(os.path.join(ROOT, "contracts", "SIZES.json"), "w"), indent=0, sort_keys=True)
    results.sort(key=lambda r: r["key"])
    # property-level lemmas (pure SMT over the contracts)
    lemma_results = props_mod.run_lemmas(prop, tier)
    known, fixed = load_known(prop)
    def known_for(o):
        for k in known:
            if k.get("obligation") != o["name"]:
                continue
            tr = k.get("trail")
            if tr and not ",".join(o.get("trail") or []).endswith(tr):
                continue      # same obligation, different history: not the listed finding
            br = k.get("branch")
            if br and not ",".join(str(x) for x in (o.get("path") or [])).endswith(br):
                continue      # same obligation reached through other branches: not the listed finding
            return k
        return None
    all_obs = []
    errors = []
    crashes = []
    # loop invariants are keyed by loop ordinal: if the loops of a function are no longer the ones the sidecar was written
    # for, a failing obligation of that function says nothing about the property -- it is reported as undecided
    try:
        shapes = json.load(open(os.path.join(ROOT, "contracts", "SHAPES.json")))
    except Exception:
        shapes = {}
    for r in results:
        want = shapes.get(r["key"].split("@")[0])
        if want is not None and r.get("shape") is not None and want != r["shape"]:
            c_ = DB.contracts.get(r["key"]) or DB.variants.get(r["key"])
            if c_ is not None and c_.loops:
                for o in r["obligations"]:
                    if o["status"] == "sat":
                        o["status"] = "unknown"
                        o["error"] = "the loops of %s changed (%s -> %s): its sidecar loop invariants no longer apply; re-annotate" % (
                            r["key"], want, r["shape"])
    for r in results:
        if r["error"]:
            (crashes if r["error"].startswith("crash") else errors).append((r["key"], r["error"]))
        if r.get("requires_sat") == "unsat":
            crashes.append((r["key"], "vacuity: contradictory requires"))
        if r.get("probe_groups"):
            ok = {}
            for r2 in results:
                if r2["key"] == r["key"]:
                    ok.update(r2.get("path_ok") or {})
            for nm, pks in r["probe_groups"].items():
                if pks and all(ok.get(pk) is False for pk in pks):
                    crashes.append((r["key"], "vacuity: every path reaching %s has contradictory hypotheses" % nm))
        if not r["error"] and not r["obligations"]:
            crashes.append((r["key"], "vacuity: zero obligations generated"))
        if not r["error"] and r.get("has_ensures") and not r["outcomes"].get("normal"):
            crashes.append((r["key"], "vacuity: the contract has postconditions but no path returns normally"))
        all_obs.extend(r["obligations"])
    all_obs.extend(lemma_results)
    n = len(all_obs)
    discharged = [o for o in all_obs if o["status"] == "unsat"]
    refuted = [o for o in all_obs if o["status"] == "sat"]
    undecided = [o for o in all_obs if o["status"] not in ("unsat", "sat")]
    violations = []
    known_hit = []
    os.makedirs(os.path.join(OUT, "replay", prop), exist_ok=True)
    for o in refuted:
        kf = known_for(o)
        if kf is not None:
            known_hit.append((o, kf))
            continue
        violations.append(o)
    exit_code = 0
    lines = []
    from . import replay as replay_mod
    for o in violations:
        path = os.path.join(OUT, "replay", prop, hashlib.sha1((o["name"] + str(o.get("path"))).encode()).hexdigest()[:12] + ".json")
        confirmed = replay_mod.write_replay(path, prop, o, repo)
        lines.append("VIOLATION property=%s replay=%s%s" % (prop, path, "" if confirmed else " no-failing-input-found"))
        exit_code = 1
    seen_known = set()
    foreign_known = []
    for o, k in known_hit:
        if o["name"] not in seen_known:
            seen_known.add(o["name"])
            if k.get("property") == prop or prop in (o.get("props") or []) and k.get("property") is None:
                lines.append("KNOWN-FINDING: property=%s %s [obligation %s]" % (prop, k["what"], o["name"]))
            else:
                # a listed finding of another property on a function this property's closure shares: reported there
                foreign_known.append("%s (listed under %s)" % (o["name"], k.get("property")))
    own_known = [1 for l in lines if l.startswith("KNOWN-FINDING")]
    foreign_count = sum(1 for o, k in known_hit
                        if not (k.get("property") == prop or prop in (o.get("props") or []) and k.get("property") is None))
    if exit_code == 0 and (undecided or errors):
        exit_code = 2
    if crashes:
        exit_code = 3 if exit_code != 1 else 1
    if n == 0 and not crashes:
        crashes.append(("-", "vacuity: the property has zero obligations"))
        exit_code = 3
    for l in lines:
        print(l)
    for k, e in errors:
        print("UNDECIDED %s: %s" % (k, e.splitlines()[0]))
    for o in undecided:
        print("UNDECIDED obligation %s: %s" % (o["name"], o.get("error", o["status"]).splitlines()[0] if o.get("error") else o["status"]))
    for k, e in crashes:
        print("CHECKER-CRASH %s: %s" % (k, e))
    wall = time.time() - t0
    # ---- evidence ------------------------------------------------------------------------------------------------------
    per_backend = {}
    for o in all_obs:
        per_backend[o.get("backend", "-")] = per_backend.get(o.get("backend", "-"), 0) + 1
    solver_seconds = sum(float(o.get("seconds") or 0) for o in all_obs)
    max_q = max([float(o.get("seconds") or 0) for o in all_obs] or [0.0])
    samples = []
    for o in all_obs:
        if o.get("smt2") and len(samples) < 3:
            samples.append({"obligation": o["name"], "function": o.get("func"), "clause": o.get("clause"), "status": o["status"],
                            "smtlib": o["smt2"][:6000]})
    level = props_mod.LEVELS.get(prop, "proof")
    if own_known or undecided or errors:
        level_now = "other"
    else:
        level_now = level
    drops = sorted({d for r in results for d in r.get("drops", [])})
    inlined = sorted({d for r in results for d in r.get("inlined", [])})
    ev = {
        "property_id": prop, "tier": tier, "seed": seed, "level": level_now, "wall_s": round(wall, 2),
        "violations": len(violations),
        "coverage": {
            "obligations": n - foreign_count, "discharged": len(discharged),
            "checker_cmd": "./check %s --tier %s  (python3-vt -m pyvc.check; z3 %s API, cvc5 CLI for unknowns)" % (prop, tier, z3.get_version_string()),
            "trusted_base": TRUSTED_BASE + ["assumed contract: " + t for t in trusted] + props_mod.EXTRA_TRUST.get(prop, []),
            "explanation": "contract-based deductive verification of the real source of /repo: pyvc parses the functions, "
                           "symbolically executes each against its sidecar contract (callees by contract), z3 discharges every obligation",
            "functions_under_contract": [{"function": r["key"], "loc": r.get("loc"), "sha": r.get("sha"), "paths": r["paths"],
                                          "outcomes": r["outcomes"], "obligations": len(r["obligations"]),
                                          "discharged": sum(1 for o in r["obligations"] if o["status"] == "unsat"),
                                          "error": r["error"]} for r in results],
            "lemmas": [{"name": o["name"], "status": o["status"], "backend": o.get("backend")} for o in lemma_results],
            "second_solver_cvc5": {k: sum(1 for o in all_obs if o.get("second_solver") == k) for k in ("unsat", "unknown", "sat", "error")},
            "per_backend": per_backend, "solver_seconds": round(solver_seconds, 3), "max_query_seconds": round(max_q, 3),
            "refuted": [o["name"] for o in refuted], "undecided": [o["name"] for o in undecided] + [k for k, _ in errors],
            "known_findings": [k["what"] for _, k in known_hit if k.get("property") == prop],
            "known_findings_of_other_properties_in_closure": foreign_known,
            "extraction_drops": drops, "auto_inlined": inlined,
            "not_covered": props_mod.NOT_COVERED.get(prop, []),
            "bounded": props_mod.BOUNDED.get(prop, []),
            "samples": samples or [{"obligation": o["name"], "clause": o.get("clause"), "status": o["status"]} for o in all_obs[:3]],
            "canary": "refuted (ok)",
        },
        "assumptions": props_mod.ASSUMPTIONS.get(prop, []) + ["see coverage.trusted_base"],
    }
    os.makedirs(os.path.join(OUT, "evidence"), exist_ok=True)
    with open(os.path.join(OUT, "evidence", prop + ".json"), "w") as f:
        json.dump(ev, f, indent=1, default=str)
    print("%s tier=%s functions=%d obligations=%d discharged=%d refuted=%d undecided=%d known=%d wall=%.1fs exit=%d"
          % (prop, tier, len(results), n, len(discharged) + foreign_count, len(refuted) - foreign_count, len(undecided) + len(errors), len(own_known), wall, exit_code))
    if a.v:
        for o in all_obs:
            if o["status"] != "unsat":
                print("  ", o["status"], o["name"], o.get("clause"))
    return exit_code


if __name__ == "__main__":
    sys.exit(main())
