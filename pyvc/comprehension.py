"""Side-effect-free comprehensions become lambda-defined maps / sets / sequences (DESIGN 3.2)."""
import ast
import z3

from .vtypes import (RefS, StrS, NULL, Val, NONE, REG, sort_of, is_ref, is_opt, strip_opt, FALSE, TRUE, ty_str)
from .state import Frame, Unsupported, PathEnd
from . import prelude
from .interp import mkbool, mkint, mkreal
from . import builtins_model as bm


def _single_gen(node):
    if len(node.generators) != 1:
        raise Unsupported("nested comprehension (line %s)" % node.lineno)
    g = node.generators[0]
    if g.is_async:
        raise Unsupported("async comprehension")
    return g


def _target_names(t):
    if isinstance(t, ast.Name):
        return [t.id]
    if isinstance(t, ast.Tuple) and all(isinstance(e, ast.Name) for e in t.elts):
        return [e.id for e in t.elts]
    raise Unsupported("comprehension target")


def _pure_eval(I, st, fr, exprs):
    """evaluate expressions in pure (spec) mode inside frame fr -> list of Val"""
    st.frames.append(fr)
    st.spec_depth += 1
    try:
        return [I.eval(st, e) for e in exprs]
    finally:
        st.spec_depth -= 1
        st.frames.pop()


def _keyed_source(I, st, it):
    """iteration source with set semantics -> (key type, dom array, value getter or None, value type)"""
    if bm._is_placeholder(it):
        return None
    if it.ty == "View":
        kind = it.term[0]
        if kind == "empty":
            return None
        if kind in ("items", "keys", "values"):
            d = it.term[1]
            kd = I.kd_of(d)
            return (kd.K, I.dom_of(st, d), I.vals_of(st, d), kd.V, kind)
        if kind == "chain":
            return (bm.view_key_type(I, st, it), bm.view_dom(I, st, it), None, None, "keys")
        raise Unsupported("comprehension over view %s" % kind)
    base = strip_opt(it.ty)
    if isinstance(base, tuple) and base[0] == "MSet":
        return (base[1], it.term, None, None, "keys")
    if is_ref(base):
        kd = REG.get(base[1])
        if kd.kind == "dict":
            return (kd.K, I.dom_of(st, it), I.vals_of(st, it), kd.V, "keys")
        if kd.kind == "set":
            return (kd.K, I.dom_of(st, it), None, None, "keys")
        if kd.kind == "list":
            sv = st.set_views.get(it.term.get_id())
            if sv is not None:
                return (strip_opt(kd.V), sv, None, None, "keys")
            return "list"
    raise Unsupported("comprehension over %s" % ty_str(it.ty))


def _bind_keyed(I, st, g, src):
    """frame with the comprehension variables bound to a fresh key constant"""
    kt, D, V, vt, vkind = src
    k = z3.FreshConst(sort_of(kt), "ck")
    fr = Frame(st.frame.func, st.frame.module, parent=st.frame)
    fr.spec_env = st.frame.spec_env
    names = _target_names(g.target)
    keyv = Val(kt, k)
    if vkind == "keys":
        if len(names) != 1:
            raise Unsupported("comprehension target arity")
        fr.vars[names[0]] = keyv
        keyname = names[0]
    elif vkind == "values":
        fr.vars[names[0]] = Val(vt, z3.Select(V, k))
        keyname = None
    else:
        if len(names) != 2:
            raise Unsupported("items() comprehension needs (k, v) target")
        fr.vars[names[0]] = keyv
        fr.vars[names[1]] = Val(vt, z3.Select(V, k))
        keyname = names[0]
    return fr, k, keyname


def dict_comp(I, st, node):
    g = _single_gen(node)
    it = I.eval(st, g.iter)
    src = _keyed_source(I, st, it)
    if src is None:
        return Val(("Ref", "Dict[Any,Any]"), None, extra=("emptydict",))
    if src == "list":
        raise Unsupported("dict comprehension over a list (line %s)" % node.lineno)
    fr, k, keyname = _bind_keyed(I, st, g, src)
    if not (isinstance(node.key, ast.Name) and node.key.id == keyname):
        raise Unsupported("dict comprehension key must be the iteration key (line %s)" % node.lineno)
    vals = _pure_eval(I, st, fr, [node.value] + list(g.ifs))
    v = vals[0]
    conds = [I.truthy(st, c) for c in vals[1:]]
    kt, D = src[0], src[1]
    dom = st.deflam([k], z3.And(z3.Select(D, k), *conds)) if conds else D
    vt = strip_opt(v.ty)
    cls = "Dict[%s,%s]" % (ty_str(kt), ty_str(vt))
    REG.parse(cls)
    return I.new_dict(st, cls, dom=dom, vals=st.deflam([k], v.term))


def set_comp(I, st, node):
    g = _single_gen(node)
    it = I.eval(st, g.iter)
    src = _keyed_source(I, st, it)
    if src is None or src == "list":
        raise Unsupported("set comprehension source")
    fr, k, keyname = _bind_keyed(I, st, g, src)
    if not (isinstance(node.elt, ast.Name) and node.elt.id == keyname):
        raise Unsupported("set comprehension element must be the iteration key")
    conds = [I.truthy(st, c) for c in _pure_eval(I, st, fr, list(g.ifs))]
    kt, D = src[0], src[1]
    dom = st.deflam([k], z3.And(z3.Select(D, k), *conds)) if conds else D
    cls = "Set[%s]" % ty_str(kt)
    REG.parse(cls)
    return I.new_dict(st, cls, dom=dom)


def list_comp(I, st, node):
    g = _single_gen(node)
    it = I.eval(st, g.iter)
    src = _keyed_source(I, st, it)
    if src is None:
        return Val(("Ref", "List[Any]"), None, extra=("emptylist",))
    if src == "list":
        return list_over_list(I, st, node, g, it)
    fr, k, keyname = _bind_keyed(I, st, g, src)
    kt, D, V, vt, vkind = src
    elt_is_key = isinstance(node.elt, ast.Name) and node.elt.id == keyname
    vals = _pure_eval(I, st, fr, [node.elt] + list(g.ifs))
    conds = [I.truthy(st, c) for c in vals[1:]]
    if elt_is_key:
        dom = st.deflam([k], z3.And(z3.Select(D, k), *conds)) if conds else D
        cls = "List[%s]" % ty_str(kt)
        REG.parse(cls)
        o = I.new_list(st, cls)
        ln = st.fresh(z3.IntSort(), "len")
        st.assume(ln >= 0)
        st.assume((ln == 0) == (dom == z3.K(sort_of(kt), FALSE)))
        I.set_list(st, o, ln, I.list_items(st, o))
        st.set_views[o.term.get_id()] = dom
        return o
    ev = vals[0]
    if ev.ty == "Coro":
        # [coro_fn(..k..) for k in <set/dict>]: a homogeneous batch of coroutines, one per key (consumed by gather)
        fi_, argmap_ = ev.term
        return Val("CoroList", (fi_, argmap_, z3.And(z3.Select(D, k), *conds), [k], it))
    if isinstance(node, ast.GeneratorExp):
        # consumed by min()/max()/sum(): keep the image symbolic
        dom_ = st.deflam([k], z3.And(z3.Select(D, k), *conds)) if conds else D
        return Val("View", ("image",), extra=("keyed_image", dom_, k, ev.term, strip_opt(ev.ty), kt))
    # general element over a keyed source: an unordered bag; only supported as a set-like list of element values
    et = strip_opt(ev.ty)
    cls = "List[%s]" % ty_str(et)
    REG.parse(cls)
    o = I.new_list(st, cls)
    ln = st.fresh(z3.IntSort(), "len")
    st.assume(ln >= 0)
    dom = st.deflam([k], z3.And(z3.Select(D, k), *conds)) if conds else D
    st.assume((ln == 0) == (dom == z3.K(sort_of(kt), FALSE)))
    # every list element is the image of some key in dom; every key's image occurs (bag semantics, order arbitrary)
    items = I.list_items(st, o)
    wit = z3.Function(st.fresh_name("wit"), z3.IntSort(), sort_of(kt))
    inv = z3.Function(st.fresh_name("inv"), sort_of(kt), z3.IntSort())
    j = z3.FreshConst(z3.IntSort(), "j")
    img = z3.substitute(ev.term, (k, wit(j)))
    st.assume(z3.ForAll([j], z3.Implies(z3.And(0 <= j, j < ln),
                                        z3.And(z3.Select(dom, wit(j)), z3.Select(items, j) == img, inv(wit(j)) == j))))
    st.assume(z3.ForAll([k], z3.Implies(z3.Select(dom, k), z3.And(0 <= inv(k), inv(k) < ln, wit(inv(k)) == k))))
    I.set_list(st, o, ln, items)
    # the list is the image of `dom` under k -> elt: min()/max()/map() over it reason about the keyed image directly
    if not hasattr(st, "image_views"):
        st.image_views = {}
    st.image_views[o.term.get_id()] = (dom, k, ev.term, et, kt)
    return o


def list_over_list(I, st, node, g, src):
    """[elt for x in lst if cond] with pure elt/cond: order-preserving filter-map"""
    kd = I.kd_of(src)
    ln, items = I.list_len(st, src), I.list_items(st, src)
    names = _target_names(g.target)
    if len(names) != 1:
        raise Unsupported("list comprehension target")
    i = z3.FreshConst(z3.IntSort(), "ci")
    fr = Frame(st.frame.func, st.frame.module, parent=st.frame)
    fr.spec_env = st.frame.spec_env
    xv = Val(kd.V, z3.Select(items, i))
    fr.vars[names[0]] = xv
    vals = _pure_eval(I, st, fr, [node.elt] + list(g.ifs))
    ev = vals[0]
    conds = [I.truthy(st, c) for c in vals[1:]]
    cond = z3.And(*conds) if conds else TRUE
    if ev.ty == "Coro":
        # [coro_fn(..x..) for x in lst]: a homogeneous batch of coroutines (consumed by asyncio.gather)
        fi_, argmap_ = ev.term
        return Val("CoroList", (fi_, argmap_, z3.And(0 <= i, i < ln, cond), [i], src))
    if ev.ty == "Awaitable" and ev.term[0] == "opaque_coro":
        # [handler() for handler in lst]: a batch of user coroutines awaited directly
        return Val("CoroList", (None, {"$opaque": ev}, z3.And(0 <= i, i < ln, cond), [i], src))
    et = strip_opt(ev.ty)
    cls = "List[%s]" % ty_str(et)
    REG.parse(cls)
    o = I.new_list(st, cls)
    if not conds:
        I.set_list(st, o, ln, st.deflam([i], ev.term))
        return o
    n = st.fresh(z3.IntSort(), "len")
    f = z3.Function(st.fresh_name("sel"), z3.IntSort(), z3.IntSort())
    ginv = z3.Function(st.fresh_name("selinv"), z3.IntSort(), z3.IntSort())
    j = z3.FreshConst(z3.IntSort(), "j")
    j2 = z3.FreshConst(z3.IntSort(), "j2")
    ritems = I.list_items(st, o)
    st.assume(z3.And(n >= 0, n <= ln))
    # explicit alternative triggers: the element read as well as the index map (z3 would pick the index map only, and a
    # goal about `result[j]` would never reach the source list)
    st.assume(z3.ForAll([j], z3.Implies(z3.And(0 <= j, j < n),
                                        z3.And(0 <= f(j), f(j) < ln, z3.substitute(cond, (i, f(j))),
                                               z3.Select(ritems, j) == z3.substitute(ev.term, (i, f(j))),
                                               ginv(f(j)) == j)), patterns=[z3.Select(ritems, j), f(j)]))
    st.assume(z3.ForAll([j, j2], z3.Implies(z3.And(0 <= j, j < j2, j2 < n), f(j) < f(j2))))
    st.assume(z3.ForAll([i], z3.Implies(z3.And(0 <= i, i < ln, cond), z3.And(0 <= ginv(i), ginv(i) < n, f(ginv(i)) == i)),
                        patterns=[z3.Select(items, i), ginv(i)]))
    I.set_list(st, o, n, ritems)
    return o


def to_list(I, st, v, node):
    if v.ty == "Gen":
        from . import generators
        return generators.list_of_gen(I, st, node, v.term)
    if bm._is_placeholder(v):
        return Val(("Ref", "List[Any]"), None, extra=("emptylist",))
    src = _keyed_source(I, st, v)
    if src == "list":
        o = I.new_list(st, strip_opt(v.ty)[1])
        I.set_list(st, o, I.list_len(st, v), I.list_items(st, v))
        return o
    if src is None:
        return Val(("Ref", "List[Any]"), None, extra=("emptylist",))
    kt, D = src[0], src[1]
    if src[4] != "keys":
        raise Unsupported("list() of %s view" % src[4])
    cls = "List[%s]" % ty_str(kt)
    REG.parse(cls)
    o = I.new_list(st, cls)
    ln = st.fresh(z3.IntSort(), "len")
    st.assume(ln >= 0)
    st.assume((ln == 0) == (D == z3.K(sort_of(kt), FALSE)))
    I.set_list(st, o, ln, I.list_items(st, o))
    st.set_views[o.term.get_id()] = D
    return o


def min_max_iter(I, st, name, v, node):
    """min/max over a generator expression / map() over a keyed source: a fresh value that bounds every element and is
    attained (assumed builtin contract); ValueError on an empty source"""
    if v.ty == "View" and v.term[0] == "map":
        fn, src = v.term[1], v.term[2]
        iv = getattr(st, "image_views", {}).get(src.term.get_id()) if (src.term is not None and z3.is_expr(src.term)) else None
        if src.extra and src.extra[0] == "keyed_image":
            iv = src.extra[1:]
        if iv is None:
            raise Unsupported("%s(map(...)) over %s" % (name, ty_str(src.ty)))
        dom, k, term, ety, kt = iv
        from . import calls
        st.spec_depth += 1      # the mapped function must be pure
        try:
            r = calls.call_value(I, st, fn, [Val(ety, term)], {}, node)
        finally:
            st.spec_depth -= 1
        v = Val("View", ("image",), extra=("keyed_image", dom, k, r.term, strip_opt(r.ty), kt))
    if v.extra and v.extra[0] == "keyed_image":
        _, dom, k, term, ty, kt = v.extra
        ks = k.sort()
        if st.spec_depth == 0 and not st.decide(dom != z3.K(ks, FALSE)):
            I.raise_(st, "ValueError", node)
        w = st.fresh(ks, "arg" + name)
        r = z3.substitute(term, (k, w))
        st.assume(z3.Select(dom, w))
        st.assume_type_inv(Val(kt, w))
        if name == "max":
            st.assume(z3.ForAll([k], z3.Implies(z3.Select(dom, k), term <= r)))
        else:
            st.assume(z3.ForAll([k], z3.Implies(z3.Select(dom, k), r <= term)))
        return Val(ty, r)
    raise Unsupported("%s over an iterable (line %s)" % (name, getattr(node, "lineno", "?")))


def list_sort(I, st, obj, kwargs, node):
    """lst.sort(key=f, reverse=b) -- assumed builtin contract: afterwards the list is a permutation of what it was
    (bijection perm/inv on the index range) and the keys are in (reverse) order.  f must be pure."""
    from . import calls
    kd = I.kd_of(obj)
    ln, items = I.list_len(st, obj), I.list_items(st, obj)
    keyf = kwargs.get("key")
    rev = kwargs.get("reverse")
    reverse = False
    if rev is not None:
        rv = z3.simplify(I.truthy(st, rev))
        if not (z3.is_true(rv) or z3.is_false(rv)):
            raise Unsupported("list.sort with a symbolic `reverse`")
        reverse = z3.is_true(rv)
    new = st.fresh(items.sort(), "sorted")
    perm = z3.Function(st.fresh_name("perm"), z3.IntSort(), z3.IntSort())
    inv = z3.Function(st.fresh_name("pinv"), z3.IntSort(), z3.IntSort())
    i = z3.FreshConst(z3.IntSort(), "si")
    j = z3.FreshConst(z3.IntSort(), "sj")
    rng = lambda x: z3.And(0 <= x, x < ln)
    st.assume(z3.ForAll([i], z3.Implies(rng(i), z3.And(rng(perm(i)), z3.Select(new, i) == z3.Select(items, perm(i)), inv(perm(i)) == i)),
                        patterns=[z3.Select(new, i), perm(i)]))
    st.assume(z3.ForAll([j], z3.Implies(rng(j), z3.And(rng(inv(j)), perm(inv(j)) == j)),
                        patterns=[z3.Select(items, j), inv(j)]))

    def key_of(idx):
        ev = I.elem_val(st, kd, z3.Select(new, idx))
        if keyf is None:
            return ev
        st.spec_depth += 1
        try:
            return calls.call_value(I, st, keyf, [ev], {}, node)
        finally:
            st.spec_depth -= 1
    st.bound_stack.extend([i, j])
    st.spec_side.append([])
    try:
        ki, kj = key_of(i), key_of(j)
    finally:
        st.spec_side.pop()
        del st.bound_stack[-2:]
    le = (ki.term >= kj.term) if reverse else (ki.term <= kj.term)
    st.assume(z3.ForAll([i, j], z3.Implies(z3.And(0 <= i, i < j, j < ln), le)))
    I.set_list(st, obj, ln, new)
    return NONE


def iter_builtin(I, st, name, args, kwargs, node):
    if name == "sorted":
        # sorted(xs, key=f, reverse=b): a fresh copy of the list, then the list.sort contract on the copy
        o = to_list(I, st, args[0], node)
        if o.term is None:
            return o
        list_sort(I, st, o, kwargs, node)
        return o
    if name == "filter":
        return Val("View", ("filter", args[0], args[1]))
    if name == "enumerate":
        start = args[1] if len(args) > 1 else kwargs.get("start")
        return Val("View", ("enumerate", args[0], start))
    if name == "map":
        return Val("View", ("map", args[0], args[1]))
    raise Unsupported("builtin %s (line %s)" % (name, getattr(node, "lineno", "?")))
