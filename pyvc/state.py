"""Symbolic state: path condition, Boogie-style heap (one array per field), decisions.

Paths are explored by *re-execution*: the interpreter is written in direct style and asks the
state to `decide` at every branch; a recorded decision prefix replays a path, new decisions are
pushed on the work list.  Fresh names are numbered per path, so a replayed prefix produces the
same terms.
"""
import z3
from .vtypes import (RefS, StrS, NULL, Val, REG, sort_of, is_ref, is_opt, strip_opt, FALSE, TRUE, ty_str)


def has_quantifier(e):
    stack = [e]
    seen = set()
    while stack:
        t = stack.pop()
        if z3.is_quantifier(t):
            return True
        i = t.get_id()
        if i in seen:
            continue
        seen.add(i)
        if z3.is_app(t):
            stack.extend(t.children())
    return False


class PathEnd(Exception):
    """The current path is abandoned (infeasible, or cut after an invariant check)."""


class Unsupported(Exception):
    pass


class ReturnExc(Exception):
    def __init__(self, value):
        self.value = value


class BreakExc(Exception):
    pass


class ContinueExc(Exception):
    pass


class ExcVal:
    def __init__(self, cls, exact=True, payload=None):
        self.cls = cls          # class name (short: 'NotEnoughBalance', 'AssertionError', ...)
        self.exact = exact
        self.payload = payload

    def __repr__(self):
        return "ExcVal(%s%s)" % (self.cls, "!" if self.exact else "+")


class RaiseExc(Exception):
    def __init__(self, exc, where=None):
        self.exc = exc
        self.where = where


class Obligation:
    def __init__(self, name, hyps, goal, meta=None):
        self.name = name
        self.hyps = list(hyps)
        self.goal = goal
        self.meta = meta or {}

    def formula(self):
        return z3.And(*self.hyps, z3.Not(self.goal)) if self.hyps else z3.Not(self.goal)


FEAS_TIMEOUT_MS = 1500


class State:
    def __init__(self, trace=None, sink=None, worklist=None, label=""):
        self.pc = []
        self.heap = {}
        self.heap0 = {}
        self.alloc = z3.Const("alloc0", z3.ArraySort(RefS, z3.BoolSort()))
        self.alloc0 = self.alloc
        self.frames = []
        self.trace = list(trace or [])
        self.pos = 0
        self.worklist = worklist if worklist is not None else []
        self.sink = sink if sink is not None else []
        self.counter = 0
        self.solver = z3.Solver()
        self.solver.set("timeout", FEAS_TIMEOUT_MS)
        from .vtypes import INF as _INF
        self.pc.append(_INF > 0)
        self.solver.add(_INF > 0)
        self.written = set()
        self.ghost = {"SLEPT": Val("Real", z3.RealVal(0))}
        self.suspend_heap = None
        self.spec_side = []
        self._pc_ids = set()
        self._lam_cache = {}
        self.bound_stack = []    # variables bound by the enclosing spec quantifiers
        self.trail = []          # outcomes chosen for contract calls on this path (callee:ok / callee:ExcClass)
        self.suspend_ghost = None
        self.label = label
        self.notes = []
        self.set_views = {}     # id(list ref term) -> dom array (lists built by iterating a set / dict)
        self.spec_depth = 0
        self.in_old = False
        self.old_locals = None
        self.cur_exc = []
        self.depth = 0
        self.log = []
        self.old_heap = None     # heap snapshot `old()` refers to (None: function entry = heap0)
        self.old_alloc = None

    # -- naming -------------------------------------------------------------------------
    def fresh_name(self, hint):
        self.counter += 1
        return "%s!%d" % (hint, self.counter)

    def fresh(self, sort, hint="v"):
        return z3.Const(self.fresh_name(hint), sort)

    def fresh_val(self, ty, hint="v", assume_alloc=True, finite=True):
        """A fresh symbolic value of static type ty, with its type invariant assumed."""
        base = strip_opt(ty)
        if isinstance(base, tuple) and base[0] == "Tuple":
            return Val(base, tuple(self.fresh_val(t, hint) for t in base[1]))
        if base in ("NoneT",):
            from .vtypes import NONE
            return NONE
        if base == "Fun":
            return Val("Fun", self.fresh(RefS, hint), extra=("name", hint))
        if isinstance(base, tuple) and base[0] in ("MSet", "MMap"):
            if base[0] == "MSet":
                return Val(base, self.fresh(z3.ArraySort(sort_of(base[1]), z3.BoolSort()), hint))
            return Val(base, (self.fresh(z3.ArraySort(sort_of(base[1]), z3.BoolSort()), hint + "_d"),
                              self.fresh(z3.ArraySort(sort_of(base[1]), sort_of(base[2])), hint + "_v")))
        t = self.fresh(sort_of(base), hint)
        if is_opt(ty):
            if is_ref(base) or base in ("Any", "Exc"):
                v = Val(ty, t)
            else:
                v = Val(ty, t, self.fresh(z3.BoolSort(), hint + "_isnone"))
        else:
            v = Val(ty, t)
        self.assume_type_inv(v, assume_alloc, finite)
        return v

    def assume_type_inv(self, v, assume_alloc=True, finite=True):
        base = strip_opt(v.ty)
        if is_ref(base):
            inv = z3.And(self.alloc[v.term], self.cls_is(v.term, base[1])) if assume_alloc else self.cls_is(v.term, base[1])
            if REG.get(base[1]).kind == "list":
                inv = z3.And(inv, z3.Select(self.hget("$len", z3.IntSort()), v.term) >= 0)
            if is_opt(v.ty):
                self.assume(z3.Or(v.term == NULL, inv))
            else:
                self.assume(v.term != NULL)
                self.assume(inv)
        elif isinstance(base, tuple) and base[0] == "Enum":
            vals = sorted(REG.enums[base[1]].values())
            self.assume(z3.Or(*[v.term == x for x in vals]))
        elif base == "Real" and finite:
            from .vtypes import INF
            self.assume(z3.And(v.term < INF, -INF < v.term))

    def deflam(self, bound, body):
        """array defined pointwise: a fresh array constant A with the definitional axiom  forall k. A[k] == body(k).
        (z3 lambdas make the array theory incomplete for models; the axiom is instantiated at ground terms instead)"""
        k = bound[0]
        from .solve import mentions
        outer = [b for b in self.bound_stack if not b.eq(k) and mentions(body, [b])]
        # the same pointwise definition always yields the same array (needed to identify sums written twice)
        canon = [(k, z3.Const("cb_%s" % k.sort().name(), k.sort()))] + \
                [(b, z3.Const("co%d_%s" % (i, b.sort().name()), b.sort())) for i, b in enumerate(outer)]
        cbody = z3.substitute(body, *canon)     # kept alive in the cache: AST ids are only stable while referenced
        key = cbody.get_id()
        hit = self._lam_cache.get(key)
        if hit is not None:
            return hit[0](*outer) if outer else hit[0]
        if outer:
            # the body mentions variables bound by enclosing quantifiers: the defined array is a function of them
            f = z3.Function(self.fresh_name("lamf"), *([b.sort() for b in outer] + [z3.ArraySort(k.sort(), body.sort())]))
            arr = f(*outer)
            self.assume(z3.ForAll(outer + [k], z3.Select(arr, k) == body))
            self._lam_cache[key] = (f, cbody)
            return arr
        arr = z3.FreshConst(z3.ArraySort(k.sort(), body.sort()), "lam")
        self.assume(z3.ForAll([k], z3.Select(arr, k) == body))
        self._lam_cache[key] = (arr, cbody)
        return arr

    # -- dynamic classes ----------------------------------------------------------------
    def cls_arr(self):
        return self.hget("$cls", z3.IntSort())

    def cls_is(self, ref, clsname):
        """dynamic class of ref is clsname or a (declared) subclass"""
        kd = REG.get(clsname)
        subs = REG.subclass_names(clsname)
        ids = [REG.get(n).cid for n in subs if not REG.get(n).abstract]
        if kd.cid not in ids and not kd.abstract:
            ids.append(kd.cid)
        # open world: an abstract class with a repo definition may have user subclasses the registry does not know.
        # They are represented by the negated id of the abstract class (only the base contracts hold for them).
        for n in set(subs) | {clsname}:
            k2 = REG.get(n)
            if k2.abstract and k2.qualname and not k2.qualname.endswith("Proto"):
                ids.append(-k2.cid)
        if not ids:
            ids = [kd.cid]
        c = z3.Select(self.cls_arr(), ref)
        return z3.Or(*[c == i for i in sorted(ids)])

    def cls_exact(self, ref, clsname):
        return z3.Select(self.cls_arr(), ref) == REG.get(clsname).cid

    # -- path condition -----------------------------------------------------------------
    def assume(self, c):
        if isinstance(c, bool):
            c = z3.BoolVal(c)
        c = z3.simplify(c) if not z3.is_quantifier(c) else c
        if z3.is_true(c):
            return
        cid = c.get_id()
        if cid in self._pc_ids:
            return
        self._pc_ids.add(cid)
        self.pc.append(c)
        if not has_quantifier(c):
            # the per-path feasibility solver only sees the quantifier-free facts (an over-approximation of
            # feasibility: more paths are explored, obligations always carry the full path condition)
            self.solver.add(c)

    def feasible(self, c=None):
        if c is None:
            r = self.solver.check()
        else:
            self.solver.push()
            self.solver.add(c)
            r = self.solver.check()
            self.solver.pop()
        return r != z3.unsat

    def decide(self, cond, why=""):
        if isinstance(cond, bool):
            return cond
        c = z3.simplify(cond)
        if z3.is_true(c):
            return True
        if z3.is_false(c):
            return False
        if self.pos < len(self.trace):
            d = self.trace[self.pos]
        else:
            t = self.feasible(c)
            f = self.feasible(z3.Not(c))
            if t and f:
                d = True
                self.worklist.append(self.trace[: self.pos] + [False])
            elif t:
                d = True
            elif f:
                d = False
            else:
                raise PathEnd("infeasible")
            self.trace.append(d)
        self.pos += 1
        self.assume(c if d else z3.Not(c))
        return d

    def choose(self, n, why=""):
        """n-way nondeterministic choice (all alternatives considered feasible)."""
        if n <= 1:
            return 0
        if self.pos < len(self.trace):
            d = self.trace[self.pos]
        else:
            d = 0
            for i in range(1, n):
                self.worklist.append(self.trace[: self.pos] + [i])
            self.trace.append(d)
        self.pos += 1
        return d

    # -- obligations --------------------------------------------------------------------
    def oblige(self, name, goal, meta=None, assume_after=True):
        if isinstance(goal, bool):
            goal = z3.BoolVal(goal)
        key = (name, tuple(self.trace[: self.pos]))
        g = z3.simplify(goal) if not z3.is_quantifier(goal) else goal
        if not z3.is_true(g):
            m = dict(meta or {})
            m.setdefault("path", list(self.trace[: self.pos]))
            m.setdefault("label", self.label)
            m.setdefault("trail", list(self.trail))
            self.sink.append((key, Obligation(name, self.pc, goal, m)))
        else:
            m = dict(meta or {})
            m["trivial"] = True
            self.sink.append((key, Obligation(name, [], z3.BoolVal(True), m)))
        if assume_after:
            self.assume(goal)

    # -- heap ---------------------------------------------------------------------------
    def hget(self, key, sort):
        h = self.heap.get(key)
        if h is None:
            h = self.heap0.get(key)
            if h is None:
                h = z3.Const("H_" + key, z3.ArraySort(RefS, sort))
                self.heap0[key] = h
            self.heap[key] = h
        return h

    def hget0(self, key, sort):
        h = self.heap0.get(key)
        if h is None:
            h = z3.Const("H_" + key, z3.ArraySort(RefS, sort))
            self.heap0[key] = h
            self.heap.setdefault(key, h)
        return h

    def cur_heap_get(self, key, sort):
        if self.in_old:
            if self.old_heap is not None:
                h = self.old_heap.get(key)
                if h is not None:
                    return h
            return self.hget0(key, sort)
        return self.hget(key, sort)

    def cur_alloc(self):
        if self.in_old:
            return self.old_alloc if self.old_alloc is not None else self.alloc0
        return self.alloc

    def hset(self, key, arr):
        # name every heap version (SSA): queries stay small and instances share the array constants
        if z3.is_app(arr) and arr.num_args() > 0:
            nm = z3.Const(self.fresh_name("hp_" + "".join(ch if ch.isalnum() else "_" for ch in key)), arr.sort())
            self.assume(nm == arr)
            if not hasattr(self, "hdefs"):
                self.hdefs = {}
            self.hdefs[nm.get_id()] = arr
            arr = nm
        self.heap[key] = arr
        self.written.add(key)

    def resolve_select(self, t):
        """Select(hp_k, r) where hp_k names Store(A, r, v)  ->  v  (syntactic)"""
        defs = getattr(self, "hdefs", {})
        for _ in range(8):
            if z3.is_select(t) and t.arg(0).get_id() in defs:
                d = defs[t.arg(0).get_id()]
                if z3.is_store(d) and d.arg(1).eq(t.arg(1)):
                    t = d.arg(2)
                    continue
            break
        return t

    def allocate(self, clsname, hint="obj"):
        r = self.fresh(RefS, hint)
        self.assume(z3.Not(z3.Select(self.alloc, r)))
        self.assume(r != NULL)
        self.alloc = z3.Store(self.alloc, r, True)
        ca = self.cls_arr()
        self.heap["$cls"] = z3.Store(ca, r, REG.get(clsname).cid)
        return Val(("Ref", clsname), r)

    # -- frames -------------------------------------------------------------------------
    @property
    def locals(self):
        return self.frames[-1].vars

    @property
    def frame(self):
        return self.frames[-1]


class Frame:
    def __init__(self, func, module, parent=None):
        self.func = func        # FuncInfo or None
        self.module = module    # ModuleInfo for global name resolution
        self.vars = {}
        self.parent = parent    # lexically enclosing frame (closures)
        self.entry_vars = {}
        self.spec_env = None
