"""await / asyncio / clock model (filled in with the dispatcher phase)."""
import z3
from .state import Unsupported
from .vtypes import Val


def snapshot(I, st):
    st.suspend_heap = dict(st.heap)
    st.suspend_ghost = dict(st.ghost)
    st.suspensions = getattr(st, "suspensions", 0) + 1
    st._snap_taken = True


def suspend(I, st, node=None):
    """a suspension point: other tasks run.  The heap snapshot is kept for at_suspend(); the rely of the function under
    verification says what the others may have changed (DESIGN 3.4)."""
    if not getattr(st, "_snap_taken", False):
        snapshot(I, st)
    st._snap_taken = False
    c = I.current_contract
    if c is None:
        return
    from . import calls, specs
    fr = st.frames[0]
    env = dict(fr.entry_vars)
    if c.rely_havoc:
        locs = calls.modifies_locations(I, st, c, env, c.rely_havoc)
        calls.havoc_locations(I, st, locs)
    if c.rely:
        saved = (st.old_heap, st.old_alloc)
        st.old_heap, st.old_alloc = st.suspend_heap, st.alloc
        try:
            for cl in c.rely:
                st.assume(specs.eval_clause(I, st, cl, env, fr.func))
        finally:
            st.old_heap, st.old_alloc = saved
    if c.cancellable:
        if st.choose(2, "cancelled at suspension") == 1:
            from .state import RaiseExc, ExcVal
            raise RaiseExc(ExcVal("CancelledError", True), where=getattr(node, "lineno", None))


def eval_await(I, st, node):
    from . import calls
    v = I.eval(st, node.value)
    return await_value(I, st, v, node)


def await_value(I, st, v, node):
    from . import calls
    if v.ty == "Coro":
        fi, argmap = v.term
        c = I.db.get(fi.qualname)
        r = calls.invoke(I, st, fi, None, None, node, c, argmap=argmap)
        if c is not None and not c.inline and c.may_suspend and not (I.current_target == fi.qualname and st.depth == 0):
            suspend(I, st, node)
        return r
    if v.ty == "Awaitable":
        kind = v.term[0]
        if kind == "sleep":
            d = v.term[1]
            dt_ = I.to_real(d)
            snapshot(I, st)
            st.ghost["SLEPT"] = Val("Real", st.ghost["SLEPT"].term + dt_)
            for which in ("time",):
                prev = clock_value(I, st, which)
                t = st.fresh(z3.RealSort(), "after_sleep")
                st.assume(t >= prev.term + dt_)
                st.ghost["$clock_" + which] = Val("Real", t)
            prev = clock_value(I, st, "utc")
            t = st.fresh(z3.IntSort(), "utc_after_sleep")
            st.assume(z3.ToReal(t) >= z3.ToReal(prev.term) + dt_ * 1000000)
            st.ghost["$clock_utc"] = Val("DT", t)
            suspend(I, st, node)
            from .vtypes import NONE
            return NONE
    raise Unsupported("await of %s (line %s)" % (v.ty, getattr(node, "lineno", "?")))


def call_opaque(I, st, fv, args, kwargs, node):
    """a callable the repo merely stores (factory, handler, job): described by a sidecar contract `opaque:<attr>`"""
    from . import specs
    from .vtypes import REG, NONE, is_ref, strip_opt, NULL
    kind = fv.term[0]
    attr = fv.term[1] if kind == "opaque_field" else None
    c = I.db.get("opaque:%s" % attr) if attr else None
    if c is None:
        raise Unsupported("call of opaque callable %s (line %s): no `opaque:` contract" % (attr, getattr(node, "lineno", "?")))
    I.used_contracts.add(c.key)
    rt = REG.parse(c.returns) if c.returns else "NoneT"
    res = NONE if rt == "NoneT" else st.fresh_val(rt, "res_" + attr, assume_alloc=False, finite=False)
    env = {"result": res}
    pre_heap, pre_alloc = dict(st.heap), st.alloc
    saved = (st.old_heap, st.old_alloc)
    st.old_heap, st.old_alloc = pre_heap, pre_alloc
    st.spec_assume_alloc = False
    try:
        for cl in c.ensures:
            st.assume(specs.eval_clause(I, st, cl, env, None))
    finally:
        st.old_heap, st.old_alloc = saved
        st.spec_assume_alloc = True
    if is_ref(strip_opt(res.ty)):
        st.assume(z3.Or(res.term == NULL, z3.Select(st.alloc, res.term)))
    return res


def call_any_method(I, st, meth, obj, args, kwargs, node):
    raise Unsupported("method %s on untyped value (line %s)" % (meth, getattr(node, "lineno", "?")))


def call_external(I, st, dotted, args, kwargs, node):
    if dotted == "asyncio.sleep":
        return Val("Awaitable", ("sleep", args[0]))
    raise Unsupported("external call %s (line %s)" % (dotted, getattr(node, "lineno", "?")))


def clock_value(I, st, which, old=False):
    """current value of the ghost clock `which` ('time' = time.time(), 'utc' = dt.utc_now())"""
    sort = z3.RealSort() if which == "time" else z3.IntSort()
    c0 = z3.Const("clock0_" + which, sort)
    if old:
        return Val("Real" if which == "time" else "DT", c0)
    cur = st.ghost.get("$clock_" + which)
    if cur is None:
        cur = Val("Real" if which == "time" else "DT", c0)
        st.ghost["$clock_" + which] = cur
    return cur


def clock_read(I, st, which):
    """time.time(): a monotone ghost clock (assumption: time.time() never goes backwards)"""
    prev = clock_value(I, st, which)
    t = st.fresh(z3.RealSort() if which == "time" else z3.IntSort(), "now")
    st.assume(t >= prev.term)
    if which != "time":
        v = Val("DT", t)
        st.ghost["$clock_" + which] = v
        return v
    v = Val("Real", t)
    st.ghost["$clock_" + which] = v
    st.clock_reads = getattr(st, "clock_reads", []) + [t]
    return v
