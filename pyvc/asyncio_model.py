"""await / asyncio / clock model (filled in with the dispatcher phase)."""
import z3
from .state import Unsupported
from .vtypes import Val


def snapshot(I, st):
    st.suspend_heap = dict(st.heap)
    st.suspend_ghost = dict(st.ghost)
    st.suspensions = getattr(st, "suspensions", 0) + 1
    st._snap_taken = True


def suspend(I, st, node=None):
    """a suspension point: other tasks run.  The heap snapshot is kept for at_suspend(); the rely of the function under
    verification says what the others may have changed (DESIGN 3.4)."""
    if not getattr(st, "_snap_taken", False):
        snapshot(I, st)
    st._snap_taken = False
    for attr in ("finished", "cancel_requested"):
        st.hget(I.field_key(attr, "Bool"), z3.BoolSort())
    before = dict(st.heap)
    task_progress(I, st)
    c = I.current_contract
    if c is None:
        return
    from . import calls, specs
    fr = st.frames[0]
    env = dict(fr.entry_vars)
    if c.rely_havoc:
        locs = calls.modifies_locations(I, st, c, env, c.rely_havoc)
        calls.havoc_locations(I, st, locs)
    rebase_frame(I, st, before)
    if c.rely:
        saved = (st.old_heap, st.old_alloc)
        st.old_heap, st.old_alloc = st.suspend_heap, st.alloc
        try:
            for cl in c.rely:
                st.assume(specs.eval_clause(I, st, cl, env, fr.func))
        finally:
            st.old_heap, st.old_alloc = saved
    if c.cancellable and not (c.cancellable == "once" and getattr(st, "was_cancelled", False)):
        if st.choose(2, "cancelled at suspension") == 1:
            st.was_cancelled = True
            from .state import RaiseExc, ExcVal
            raise RaiseExc(ExcVal("CancelledError", True), where=getattr(node, "lineno", None))


def rebase_frame(I, st, before):
    """what the environment changed during a suspension is not a write of the function under verification: the frame
    condition compares against a baseline that follows the environment wherever the function itself had not written"""
    from .vtypes import RefS
    base = getattr(st, "frame_base", None)
    if base is None:
        base = st.frame_base = {}
    for key, B in st.heap.items():
        A = before.get(key)
        if A is None:
            A = st.heap0.get(key)      # first touched during the suspension: it still had its entry value
        if A is None or A is B or key == "$cls":
            continue
        E = base.get(key, st.heap0.get(key))
        if E is None:
            continue
        F = st.fresh(B.sort(), "fbase")
        o = z3.FreshConst(RefS, "o")
        st.assume(z3.ForAll([o], z3.Select(F, o) == z3.If(z3.Select(A, o) == z3.Select(E, o), z3.Select(B, o), z3.Select(E, o))))
        base[key] = F


def task_progress(I, st):
    """while this coroutine is suspended other tasks make progress: Task.finished may turn True (never back to False);
    cancel_requested may turn True (assumed asyncio contract)"""
    from .vtypes import RefS
    for attr in ("finished", "cancel_requested"):
        key = I.field_key(attr, "Bool")
        old = st.cur_heap_get(key, z3.BoolSort())
        new = st.fresh(old.sort(), "tasks_" + attr)
        t = z3.FreshConst(RefS, "t")
        st.assume(z3.ForAll([t], z3.Implies(z3.Select(old, t), z3.Select(new, t))))
        st.hset(key, new)


def task_field(I, st, t, attr):
    return z3.Select(st.cur_heap_get(I.field_key(attr, "Bool"), z3.BoolSort()), t)


def task_method(I, st, meth, obj, args, kwargs, node):
    from .vtypes import NONE
    from .interp import mkbool
    if meth == "done":
        return mkbool(task_field(I, st, obj.term, "finished"))
    if meth == "cancel":
        # requests cancellation; a finished task is not affected
        key = I.field_key("cancel_requested", "Bool")
        arr = st.hget(key, z3.ArraySort(obj.term.sort(), z3.BoolSort()))
        st.hset(key, z3.Store(arr, obj.term, z3.Or(z3.Select(arr, obj.term), z3.Not(task_field(I, st, obj.term, "finished")))))
        return mkbool(z3.Not(task_field(I, st, obj.term, "finished")))
    raise Unsupported("Task.%s" % meth)


def eval_await(I, st, node):
    from . import calls
    v = I.eval(st, node.value)
    return await_value(I, st, v, node)


def await_value(I, st, v, node):
    from . import calls
    if v.ty == "Coro":
        fi, argmap = v.term
        c = I.db.get(fi.qualname)
        r = calls.invoke(I, st, fi, None, None, node, c, argmap=argmap)
        if c is not None and not c.inline and c.may_suspend and not (I.current_target == fi.qualname and st.depth == 0):
            suspend(I, st, node)
        return r
    if v.ty == "Awaitable":
        kind = v.term[0]
        if kind == "sleep":
            d = v.term[1]
            dt_ = I.to_real(d)
            snapshot(I, st)
            st.ghost["SLEPT"] = Val("Real", st.ghost["SLEPT"].term + dt_)
            for which in ("time",):
                prev = clock_value(I, st, which)
                t = st.fresh(z3.RealSort(), "after_sleep")
                st.assume(t >= prev.term + dt_)
                st.ghost["$clock_" + which] = Val("Real", t)
            prev = clock_value(I, st, "utc")
            t = st.fresh(z3.IntSort(), "utc_after_sleep")
            st.assume(z3.ToReal(t) >= z3.ToReal(prev.term) + dt_ * 1000000)
            st.ghost["$clock_utc"] = Val("DT", t)
            suspend(I, st, node)
            from .vtypes import NONE
            return NONE
        if kind == "wait":
            return await_wait(I, st, v, node)
        if kind == "gather":
            return await_gather(I, st, v, node)
        if kind == "opaque_coro":
            return await_opaque(I, st, v, node)
    raise Unsupported("await of %s (line %s)" % (v.ty, getattr(node, "lineno", "?")))


def call_opaque(I, st, fv, args, kwargs, node):
    """a callable the repo merely stores (factory, handler, job): described by a sidecar contract `opaque:<attr>`"""
    from . import specs
    from .vtypes import REG, NONE, is_ref, strip_opt, NULL
    if z3.is_expr(fv.term):
        kind, attr = "opaque_term", (fv.extra[1] if fv.extra and fv.extra[0] == "name" else None)
    else:
        kind = fv.term[0]
        attr = fv.term[1] if kind == "opaque_field" else None
        if kind == "opaque":
            attr = fv.term[1].split("!")[0].rstrip("0123456789_")
    # the sidecar contract is looked up by the name the repo gives the callable (field, parameter or loop variable)
    if attr is None and isinstance(getattr(node, "func", None), __import__("ast").Name):
        attr = node.func.id
    c = I.db.get("opaque:%s" % attr) if attr else None
    if c is None:
        raise Unsupported("call of opaque callable %s (line %s): no `opaque:` contract" % (attr, getattr(node, "lineno", "?")))
    I.used_contracts.add(c.key)
    rt = REG.parse(c.returns) if c.returns else "NoneT"
    res = NONE if rt == "NoneT" else st.fresh_val(rt, "res_" + attr, assume_alloc=False, finite=False)
    if c.may_suspend:
        # an async callable: calling it only creates the coroutine; awaiting it is a suspension point
        return Val("Awaitable", ("opaque_coro", c, res))
    env = {"result": res}
    pre_heap, pre_alloc = dict(st.heap), st.alloc
    saved = (st.old_heap, st.old_alloc)
    st.old_heap, st.old_alloc = pre_heap, pre_alloc
    st.spec_assume_alloc = False
    try:
        for cl in c.ensures:
            st.assume(specs.eval_clause(I, st, cl, env, None))
    finally:
        st.old_heap, st.old_alloc = saved
        st.spec_assume_alloc = True
    if is_ref(strip_opt(res.ty)):
        st.assume(z3.Or(res.term == NULL, z3.Select(st.alloc, res.term)))
    return res


def await_wait(I, st, v, node):
    """await asyncio.wait(fs, timeout=, return_when=): (done, pending) partition the set fs had at the call; every task in
    done is finished; without a timeout done is non-empty, and is all of fs for ALL_COMPLETED (assumed asyncio contract)"""
    from .vtypes import REG, NONE, sort_of, FALSE, strip_opt, is_opt
    _, fs, timeout, rw = v.term
    kd = I.kd_of(fs)
    if kd.kind != "set":
        raise Unsupported("asyncio.wait on a %s" % kd.kind)
    S0 = I.dom_of(st, fs)
    ks = sort_of(kd.K)
    if not st.decide(S0 != z3.K(ks, FALSE)):
        I.raise_(st, "ValueError", node)
    w = st.fresh(ks, "waited")
    st.assume(z3.Select(S0, w))
    st.assume_type_inv(Val(kd.K, w))
    snapshot(I, st)
    suspend(I, st, node)
    D = st.fresh(S0.sort(), "done")
    t = z3.FreshConst(ks, "t")
    st.assume(z3.ForAll([t], z3.Implies(z3.Select(D, t), z3.And(z3.Select(S0, t), task_field(I, st, t, "finished")))))
    no_timeout = timeout.none if is_opt(timeout.ty) else z3.BoolVal(timeout.ty == "NoneT")
    wd = st.fresh(ks, "first_done")
    st.assume(z3.Implies(no_timeout, z3.Select(D, wd)))
    all_c = rw.term == I.str_const(st, "ALL_COMPLETED").term
    st.assume(z3.Implies(z3.And(no_timeout, all_c), D == S0))
    cls = "Set[%s]" % kd.K[1]
    REG.parse(cls)
    done = I.new_dict(st, cls, dom=D)
    P = st.deflam([t], z3.And(z3.Select(S0, t), z3.Not(z3.Select(D, t))))
    pending = I.new_dict(st, cls, dom=P)
    return Val(("Tuple", (done.ty, pending.ty)), (done, pending))


def _raise_forks(I, st, keys, what, node):
    """fork: normal / one path per exception key"""
    from .state import RaiseExc, ExcVal
    if not keys:
        return
    k = st.choose(1 + len(keys), "outcome of %s" % what)
    st.trail.append("%s:%s" % (what, "ok" if k == 0 else keys[k - 1].rstrip("!")))
    if k > 0:
        key = keys[k - 1]
        raise RaiseExc(ExcVal(key.rstrip("!"), key.endswith("!")), where=getattr(node, "lineno", None))


def await_gather(I, st, v, node):
    """await asyncio.gather(*aws, return_exceptions=?).  Supported shapes: tasks (every task finished afterwards);
    coroutines of contracted repo functions (a homogeneous comprehension, or listed one by one).  The children run
    interleaved with everything else: their *own* effects are the havoc of their contracts' `modifies`; everything other
    tasks may do is the rely of the function under verification.  Raises what a child may raise (first exception wins)
    unless return_exceptions=True; CancelledError if the caller is cancellable."""
    from .vtypes import NONE, is_ref, strip_opt, sort_of
    from . import calls, specs
    _, items, ret_exc = v.term
    swallow = ret_exc is not None and z3.is_true(z3.simplify(I.truthy(st, ret_exc)))
    task_lists, coros = [], []
    for it in items:
        star = isinstance(it, tuple) and it[0] == "star"
        x = it[1] if star else it
        if x.ty == "CoroList":
            coros.append(x.term)
            st.ghost.setdefault("$batches", [])
            st.ghost["$batches"] = st.ghost["$batches"] + [x.term]
        elif x.ty == "Coro":
            coros.append((x.term[0], x.term[1], None, [], None))
        elif star and is_ref(strip_opt(x.ty)) and I.kd_of(x).kind in ("list", "set") and strip_opt(I.kd_of(x).V if I.kd_of(x).kind == "list" else I.kd_of(x).K) == ("Ref", "Task"):
            task_lists.append(x)
        elif star and x.extra and x.extra[0] in ("emptylist",):
            pass
        else:
            raise Unsupported("asyncio.gather of %s (line %s)" % (x.ty, getattr(node, "lineno", "?")))
    raise_keys = []
    for fi, argmap, guard, bound, _src in coros:
        if fi is None:
            # user coroutines: their effects are the rely; they raise what their opaque contract says
            for k in argmap["$opaque"].term[1].raises:
                if k not in raise_keys:
                    raise_keys.append(k)
            continue
        c = I.db.get(fi.qualname)
        if c is None:
            raise Unsupported("asyncio.gather of coroutine %s without a contract" % fi.qualname)
        I.used_contracts.add(c.key)
        env = dict(argmap)
        site = "%s.gather[%s]" % (I.short(st.frame.func), fi.name)
        for cl in c.requires:
            g = specs.eval_clause(I, st, cl, env, fi)
            if guard is not None:
                g = z3.Implies(guard, g)
            if bound:
                g = z3.ForAll(bound, g)
            st.oblige("%s.pre[%s]" % (site, cl.label), g, meta={"kind": "call_pre", "callee": fi.qualname, "clause": cl.text,
                                                               "line": getattr(node, "lineno", None)})
        for k in c.raises:
            if k not in raise_keys:
                raise_keys.append(k)
    # all preconditions are demanded at the gather call; then the children run (interleaved)
    all_locs = []
    for fi, argmap, guard, bound, _src in coros:
        if fi is None:
            continue
        c = I.db.get(fi.qualname)
        all_locs.append(calls.modifies_locations(I, st, c, dict(argmap), c.modifies))
    for locs in all_locs:
        calls.havoc_locations(I, st, locs)
    snapshot(I, st)
    suspend(I, st, node)
    if task_lists and not swallow:
        # a task's exception propagates: the producer's / dispatch loop's own error
        for k in ("Exception", "CancelledError"):
            if k not in raise_keys:
                raise_keys.append(k)
    if swallow:
        raise_keys = []
    _raise_forks(I, st, raise_keys, "gather", node)
    for x in task_lists:
        kd = I.kd_of(x)
        if kd.kind == "list":
            i = z3.FreshConst(z3.IntSort(), "i")
            items_ = I.list_items(st, x)
            st.assume(z3.ForAll([i], z3.Implies(z3.And(0 <= i, i < I.list_len(st, x)),
                                                task_field(I, st, z3.Select(items_, i), "finished"))))
        else:
            t = z3.FreshConst(sort_of(kd.K), "t")
            st.assume(z3.ForAll([t], z3.Implies(z3.Select(I.dom_of(st, x), t), task_field(I, st, t, "finished"))))
    return Val("Any", st.fresh(z3.DeclareSort("Ref") if False else I_refsort(), "gathered"))


def I_refsort():
    from .vtypes import RefS
    return RefS


def await_opaque(I, st, v, node):
    from .vtypes import NONE
    _, c, res = v.term
    snapshot(I, st)
    suspend(I, st, node)
    _raise_forks(I, st, list(c.raises.keys()), c.qualname, node)
    return res


def call_any_method(I, st, meth, obj, args, kwargs, node):
    from .vtypes import NONE
    if obj.extra and obj.extra[0] == "event_loop" and meth == "add_signal_handler":
        I.drops.add("loop.add_signal_handler(signal, self.stop): registration of the stop handler (stop() itself is under contract; its delivery is part of the rely: stop may be requested at any suspension)")
        return NONE
    raise Unsupported("method %s on untyped value (line %s)" % (meth, getattr(node, "lineno", "?")))


def call_external(I, st, dotted, args, kwargs, node):
    if dotted == "asyncio.sleep":
        return Val("Awaitable", ("sleep", args[0]))
    from .vtypes import NONE, RefS
    from .interp import mkbool
    if dotted == "asyncio.create_task":
        t = st.allocate("Task", "task")
        for attr in ("finished", "cancel_requested"):
            I.write_field(st, t, attr, "Bool", mkbool(False))
        return t
    if dotted == "asyncio.wait":
        return Val("Awaitable", ("wait", args[0], kwargs.get("timeout", NONE),
                                 kwargs.get("return_when", I.str_const(st, "ALL_COMPLETED"))))
    if dotted == "asyncio.gather":
        return Val("Awaitable", ("gather", list(args), kwargs.get("return_exceptions")))
    if dotted == "platform.system":
        return Val("Str", st.fresh(__import__("pyvc.vtypes", fromlist=["StrS"]).StrS, "platform"))
    if dotted == "asyncio.get_event_loop":
        return Val("Any", st.fresh(RefS, "loop"), extra=("event_loop",))
    if dotted == "logging.getLogRecordFactory":
        return log_factory(I, st)
    if dotted == "logging.setLogRecordFactory":
        st.ghost["$log_factory"] = args[0]
        return NONE
    raise Unsupported("external call %s (line %s)" % (dotted, getattr(node, "lineno", "?")))


def stages_in_order(I, st, fname, event, lists):
    """ghost trace of gathered batches: the batches awaited so far are exactly the non-empty lists among `lists`, in that
    order, each batch calling method `fname` with the given event and the list's elements as handlers"""
    batches = st.ghost.get("$batches", [])
    n = len(batches)
    import itertools
    alts = []
    for S in itertools.combinations(range(len(lists)), n):
        conj = []
        for j, l in enumerate(lists):
            ne = I.list_len(st, l) > 0
            conj.append(ne if j in S else z3.Not(ne))
        ok = True
        for b, j in zip(batches, S):
            fi, argmap, guard, bound, src = b
            if fi is None or fi.name != fname or src is None:
                ok = False
                break
            conj.append(src.term == lists[j].term)
            ev = argmap.get("event")
            conj.append(ev.term == event.term if ev is not None else z3.BoolVal(False))
            h = argmap.get("handler")
            items = I.list_items(st, src)
            if h is None or not (z3.is_select(h.term) and h.term.arg(1).eq(bound[0])):
                ok = False
                break
        if ok:
            alts.append(z3.And(*conj))
    return z3.Or(*alts) if alts else z3.BoolVal(False)


def gathered_count(I, st, fname, src):
    """how many gathered batches so far called coroutine function `fname` once per element of the container `src`"""
    n = 0
    for fi, argmap, guard, bound, bsrc in st.ghost.get("$batches", []):
        if fi is not None and fi.name == fname and bsrc is not None and bsrc.term is not None and z3.is_expr(bsrc.term) and bsrc.term.eq(src.term):
            n += 1
    return n


def log_factory(I, st, entry=False):
    """process-wide logging record factory (ghost global)"""
    from .vtypes import RefS
    init = Val("Any", z3.Const("log_factory0", RefS))
    if entry:
        return init
    return st.ghost.get("$log_factory", init)


def log_factory_is_entry(I, st):
    cur = log_factory(I, st)
    init = log_factory(I, st, entry=True)
    if cur.ty == "Any" and z3.is_expr(cur.term):
        return cur.term == init.term
    return z3.BoolVal(False)


def clock_value(I, st, which, old=False):
    """current value of the ghost clock `which` ('time' = time.time(), 'utc' = dt.utc_now())"""
    sort = z3.RealSort() if which == "time" else z3.IntSort()
    c0 = z3.Const("clock0_" + which, sort)
    if old:
        return Val("Real" if which == "time" else "DT", c0)
    cur = st.ghost.get("$clock_" + which)
    if cur is None:
        cur = Val("Real" if which == "time" else "DT", c0)
        st.ghost["$clock_" + which] = cur
    return cur


def clock_read(I, st, which):
    """time.time(): a monotone ghost clock (assumption: time.time() never goes backwards)"""
    prev = clock_value(I, st, which)
    t = st.fresh(z3.RealSort() if which == "time" else z3.IntSort(), "now")
    st.assume(t >= prev.term)
    if which != "time":
        v = Val("DT", t)
        st.ghost["$clock_" + which] = v
        return v
    v = Val("Real", t)
    st.ghost["$clock_" + which] = v
    st.clock_reads = getattr(st, "clock_reads", []) + [t]
    return v
