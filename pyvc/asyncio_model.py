"""await / asyncio / clock model (filled in with the dispatcher phase)."""
import z3
from .state import Unsupported
from .vtypes import Val


def eval_await(I, st, node):
    raise Unsupported("await (line %s)" % getattr(node, "lineno", "?"))


def call_opaque(I, st, fv, args, kwargs, node):
    raise Unsupported("call of opaque callable (line %s)" % getattr(node, "lineno", "?"))


def call_any_method(I, st, meth, obj, args, kwargs, node):
    raise Unsupported("method %s on untyped value (line %s)" % (meth, getattr(node, "lineno", "?")))


def call_external(I, st, dotted, args, kwargs, node):
    raise Unsupported("external call %s (line %s)" % (dotted, getattr(node, "lineno", "?")))


def clock_read(I, st, which):
    """time.time(): a monotone ghost clock (assumption: time.time() never goes backwards)"""
    prev = st.ghost.get("$clock_" + which)
    t = st.fresh(z3.RealSort(), "now")
    if prev is not None:
        st.assume(t >= prev.term)
    v = Val("Real", t)
    st.ghost["$clock_" + which] = v
    st.clock_reads = getattr(st, "clock_reads", []) + [t]
    return v
