"""Symbolic interpreter for the Python subset described in DESIGN.md 3.2 (direct style, re-execution)."""
import ast
import z3

from .vtypes import (IdS, RefS, StrS, NULL, INF, EMPTY_STR, Val, NONE, REG, sort_of, is_ref, is_opt, strip_opt, FALSE, TRUE,
                    ty_str, mk_none, default_term, definitely_none, definitely_not_none)
from .state import (State, Frame, PathEnd, Unsupported, ReturnExc, BreakExc, ContinueExc, RaiseExc, ExcVal)
from .repo import FuncInfo, ClassInfo, ModuleInfo
from . import prelude

BUILTIN_EXC = {
    "BaseException": None, "Exception": "BaseException", "AssertionError": "Exception", "KeyError": "LookupError",
    "LookupError": "Exception", "IndexError": "LookupError", "ValueError": "Exception", "TypeError": "Exception",
    "RuntimeError": "Exception", "NotImplementedError": "RuntimeError", "ZeroDivisionError": "ArithmeticError",
    "ArithmeticError": "Exception", "CancelledError": "BaseException", "StopIteration": "Exception",
    "KeyboardInterrupt": "BaseException", "TimeoutError": "Exception", "AttributeError": "Exception",
    "InvalidOperation": "ArithmeticError", "OSError": "Exception", "UnicodeError": "ValueError",
    "StopAsyncIteration": "Exception", "GeneratorExit": "BaseException", "SystemExit": "BaseException",
}

MAX_INLINE_DEPTH = 8


def mkbool(b):
    return Val("Bool", z3.BoolVal(b) if isinstance(b, bool) else b)


def mkint(i):
    return Val("Int", z3.IntVal(i) if isinstance(i, int) else i)


def mkreal(x):
    if isinstance(x, (int, str)):
        return Val("Real", z3.RealVal(x))
    return Val("Real", x)


class Interp:
    def __init__(self, repo, db):
        self.repo = repo
        self.db = db
        self.str_consts = {}
        self.exc_parent = dict(BUILTIN_EXC)
        for ci in repo.classes.values():
            for b in ci.bases:
                bn = b.name if isinstance(b, ClassInfo) else b.split(".")[-1]
                if bn in self.exc_parent or any(bn == k for k in self.exc_parent):
                    self.exc_parent[ci.name] = bn
        # second pass for deeper hierarchies
        changed = True
        while changed:
            changed = False
            for ci in repo.classes.values():
                if ci.name in self.exc_parent:
                    continue
                for b in ci.bases:
                    bn = b.name if isinstance(b, ClassInfo) else b.split(".")[-1]
                    if bn in self.exc_parent:
                        self.exc_parent[ci.name] = bn
                        changed = True
        self.call_ordinals = {}
        self.inlined = set()
        self.used_contracts = set()
        self.drops = set()
        self.current_contract = None
        self.current_target = None
        self.strict_frames = True

    def active_contract(self, fi):
        c = self.current_contract
        if c is not None and fi is not None and c.qualname == fi.qualname:
            return c
        return self.db.get(fi.qualname) if fi is not None else None

    def short(self, fi):
        if fi is None:
            return "<top>"
        if fi.cls is not None:
            return fi.cls.name + "." + fi.name
        return fi.module.name.split(".")[-1] + "." + fi.name

    # ==================================================================================
    # exceptions
    # ==================================================================================
    def exc_is_sub(self, sub, sup):
        c = sub
        while c is not None:
            if c == sup:
                return True
            c = self.exc_parent.get(c)
        return False

    def exc_match(self, st, exc, handler_classes):
        """does `except handler_classes` catch exc?  may fork when exc is a class *set*"""
        for h in handler_classes:
            if self.exc_is_sub(exc.cls, h):
                return True
        if not exc.exact:
            # exc stands for cls or any subclass: a handler for a strict subclass may or may not match
            for h in handler_classes:
                if self.exc_is_sub(h, exc.cls):
                    i = st.choose(2, "exc-subclass")
                    if i == 0:
                        exc2 = ExcVal(h, False, exc.payload)
                        exc.cls, exc.exact = exc2.cls, False
                        return True
                    # not that subclass: keep class set (over-approximation: still 'cls or subclass')
        return False

    def raise_(self, st, cls, node=None):
        raise RaiseExc(ExcVal(cls, True), where=getattr(node, "lineno", None))

    # ==================================================================================
    # strings
    # ==================================================================================
    def str_const(self, st, s):
        if s == "":
            return Val("Str", EMPTY_STR)
        c = self.str_consts.get(s)
        if c is None:
            c = z3.Const("str_%d_%s" % (len(self.str_consts), "".join(ch if ch.isalnum() else "_" for ch in s)[:24]), StrS)
            self.str_consts[s] = c
        return Val("Str", c)

    def str_distinct_axioms(self):
        cs = list(self.str_consts.values()) + [EMPTY_STR]
        if len(cs) > 1:
            return [z3.Distinct(*cs)]
        return []

    # ==================================================================================
    # truthiness, conversions
    # ==================================================================================
    def truthy(self, st, v):
        """z3 Bool for `bool(v)`"""
        if v.ty == "NoneT":
            return FALSE
        if v.extra and v.extra[0] in ("emptydict", "emptylist", "emptyset") and v.term is None:
            return FALSE
        base = strip_opt(v.ty)
        if base == "Bool":
            t = v.term
        elif base in ("Int", "Real"):
            t = v.term != 0
        elif base == "TD":
            t = v.term != 0
        elif base == "DT":
            t = TRUE
        elif base == "Str":
            t = v.term != EMPTY_STR
        elif base == "Id":
            t = TRUE
        elif is_ref(base):
            kd = REG.get(base[1])
            if kd.kind in ("dict", "set"):
                t = self.dom_of(st, v) != z3.K(sort_of(kd.K), FALSE)
            elif kd.kind == "list":
                t = self.list_len(st, v) > 0
            else:
                t = TRUE
        elif isinstance(base, tuple) and base[0] == "Tuple":
            t = z3.BoolVal(len(base[1]) > 0)
        elif isinstance(base, tuple) and base[0] == "MSet":
            t = v.term != z3.K(sort_of(base[1]), FALSE)
        elif isinstance(base, tuple) and base[0] in ("Enum", "Val"):
            t = TRUE
        elif base in ("Any", "Fun", "Exc", "Type"):
            t = TRUE
        else:
            raise Unsupported("truthiness of %s" % ty_str(v.ty))
        if z3.is_false(v.none):
            return t
        return z3.And(z3.Not(v.none), t)

    def to_real(self, v):
        if strip_opt(v.ty) == "Int":
            return z3.ToReal(v.term)
        return v.term

    def num_kind(self, v):
        b = strip_opt(v.ty)
        if b in ("Int", "Real", "DT", "TD", "Bool"):
            return b
        return None

    # ==================================================================================
    # heap helpers: fields, dicts, lists, sets
    # ==================================================================================
    def field_type(self, clsname, attr):
        kd = REG.get(clsname)
        return kd.all_fields(REG).get(attr)

    def field_key(self, attr, ty):
        base = strip_opt(ty)
        return "%s#%s" % (attr, sort_of(base))

    def read_field(self, st, obj, attr, fty):
        base = strip_opt(fty)
        if isinstance(base, tuple) and base[0] in ("MSet", "MMap"):
            # ghost math-valued field
            if base[0] == "MSet":
                key = "%s#mset_%s" % (attr, sort_of(base[1]))
                arr = st.cur_heap_get(key, z3.ArraySort(sort_of(base[1]), z3.BoolSort()))
                return Val(base, z3.Select(arr, obj.term))
            kd_ = "%s#mmapd_%s" % (attr, sort_of(base[1]))
            kv_ = "%s#mmapv_%s_%s" % (attr, sort_of(base[1]), sort_of(base[2]))
            ad = st.cur_heap_get(kd_, z3.ArraySort(sort_of(base[1]), z3.BoolSort()))
            av = st.cur_heap_get(kv_, z3.ArraySort(sort_of(base[1]), sort_of(base[2])))
            return Val(base, (z3.Select(ad, obj.term), z3.Select(av, obj.term)))
        if base == "Fun":
            return Val("Fun", ("opaque_field", attr, obj.term))
        key = self.field_key(attr, fty)
        arr = st.cur_heap_get(key, sort_of(base))
        term = z3.Select(arr, obj.term)
        if is_opt(fty) and not (is_ref(base) or base in ("Any", "Exc")):
            narr = st.cur_heap_get(attr + "#none", z3.BoolSort())
            v = Val(fty, term, z3.Select(narr, obj.term))
        else:
            v = Val(fty, term)
        if is_ref(base) and REG.get(base[1]).kind != "object" and (attr not in REG.shared_fields) and not st.in_old:
            # ownership discipline (assumed, DESIGN 3.6): a container object referenced from a field is not referenced
            # from any other field -- two different (object, field) pairs never hold the same dict/list/set
            own = z3.And(prelude.owner_obj(term) == obj.term, prelude.owner_fld(term) == prelude.field_id(attr))
            own = z3.Implies(term != NULL, own)
            if st.spec_depth == 0 or not st.spec_side:
                st.assume(own)
            else:
                st.spec_side[-1].append(own)
        if st.spec_depth == 0:
            st.assume_type_inv(v, finite=attr not in REG.unbounded)
        elif is_ref(base):
            g = None
            if is_ref(strip_opt(obj.ty)) and obj.term is not None:
                g = z3.And(obj.term != NULL, st.alloc[obj.term], st.cls_is(obj.term, strip_opt(obj.ty)[1]))
            self.spec_type_inv(st, v, g)
        return v

    def typed_fact(self, st, v):
        """`v` is a well-typed reference: non-null (unless optional), allocated, of its declared class"""
        base = strip_opt(v.ty)
        inv = st.cls_is(v.term, base[1])
        if getattr(st, "spec_assume_alloc", True):
            inv = z3.And(inv, st.alloc[v.term])
        if REG.get(base[1]).kind == "list":
            inv = z3.And(inv, z3.Select(st.hget("$len", z3.IntSort()), v.term) >= 0)
        return z3.Or(v.term == NULL, inv) if is_opt(v.ty) else z3.And(v.term != NULL, inv)

    def spec_type_inv(self, st, v, guard=None):
        """well-typed-heap facts for values read inside a spec.  They are invariants of every real execution (a field of
        a typed object holds a typed value; dict values / list elements *in range* are typed), so they are assumed as
        stand-alone hypotheses -- universally closed when they mention a bound variable (see calls.spec_special)."""
        base = strip_opt(v.ty)
        if is_ref(base) and not st.in_old:
            f = self.typed_fact(st, v)
            if guard is not None:
                f = z3.Implies(guard, f)
            if st.spec_side:
                st.spec_side[-1].append(f)
            else:
                st.assume(f)

    def write_field(self, st, obj, attr, fty, val):
        base = strip_opt(fty)
        if isinstance(base, tuple) and base[0] == "MSet":
            key = "%s#mset_%s" % (attr, sort_of(base[1]))
            arr = st.hget(key, z3.ArraySort(sort_of(base[1]), z3.BoolSort()))
            st.hset(key, z3.Store(arr, obj.term, val.term))
            return
        if isinstance(base, tuple) and base[0] == "MMap":
            kd_ = "%s#mmapd_%s" % (attr, sort_of(base[1]))
            kv_ = "%s#mmapv_%s_%s" % (attr, sort_of(base[1]), sort_of(base[2]))
            ad = st.hget(kd_, z3.ArraySort(sort_of(base[1]), z3.BoolSort()))
            av = st.hget(kv_, z3.ArraySort(sort_of(base[1]), sort_of(base[2])))
            st.hset(kd_, z3.Store(ad, obj.term, val.term[0]))
            st.hset(kv_, z3.Store(av, obj.term, val.term[1]))
            return
        if base == "Fun":
            return
        key = self.field_key(attr, fty)
        arr = st.hget(key, sort_of(base))
        val = self.coerce(st, val, fty)
        st.hset(key, z3.Store(arr, obj.term, val.term))
        if is_opt(fty) and not (is_ref(base) or base in ("Any", "Exc")):
            nkey = attr + "#none"
            narr = st.hget(nkey, z3.BoolSort())
            st.hset(nkey, z3.Store(narr, obj.term, val.none))

    def coerce(self, st, v, ty):
        """adapt a value to a declared type (Int->Real, None->Opt)"""
        base = strip_opt(ty)
        if isinstance(base, tuple) and base[0] == "Tuple" and isinstance(v.term, tuple):
            # packing a Python tuple for storage in a container
            from .vtypes import tuple_sort
            _, mk, _ = tuple_sort(base)
            return Val(base, mk(*[self.coerce(st, x, t).term for x, t in zip(v.term, base[1])]))
        if v.ty == "NoneT":
            if not is_opt(ty) and base not in ("Any",):
                # storing None in a non-optional slot: keep as null/none (annotation was imprecise)
                return mk_none(base)
            return mk_none(base)
        vb = strip_opt(v.ty)
        if base == "Real" and vb == "Int":
            return Val(ty if is_opt(ty) else "Real", z3.ToReal(v.term), v.none)
        if base == "Real" and vb == "Bool":
            return Val("Real", z3.If(v.term, z3.RealVal(1), z3.RealVal(0)), v.none)
        if base == "Int" and vb == "Bool":
            return Val("Int", z3.If(v.term, z3.IntVal(1), z3.IntVal(0)), v.none)
        return v

    # -- container content ---------------------------------------------------------------
    def kd_of(self, v):
        base = strip_opt(v.ty)
        if not is_ref(base):
            raise Unsupported("container op on %s" % ty_str(v.ty))
        return REG.get(base[1])

    def dom_key(self, kd):
        return "$dom#%s" % sort_of(kd.K)

    def val_key(self, kd):
        return "$val#%s#%s" % (sort_of(kd.K), sort_of(strip_opt(kd.V)))

    def rank_key(self, kd):
        return "$rank#%s" % sort_of(kd.K)

    def rank_of(self, st, v):
        """insertion rank of the keys of an ordered dict (ghost): Python dicts iterate in insertion order"""
        kd = self.kd_of(v)
        arr = st.cur_heap_get(self.rank_key(kd), z3.ArraySort(sort_of(kd.K), z3.IntSort()))
        return z3.Select(arr, v.term)

    def note_insert(self, st, obj, k, dom_before):
        """obj[k] = ... : a key that was not present gets a rank above every present key; a present key keeps its rank"""
        kd = self.kd_of(obj)
        if kd.name not in REG.ordered:
            return
        rk = self.rank_of(st, obj)
        r = st.fresh(z3.IntSort(), "rank")
        j = z3.FreshConst(sort_of(kd.K), "j")
        st.assume(z3.ForAll([j], z3.Implies(z3.Select(dom_before, j), z3.Select(rk, j) < r)))
        key = self.rank_key(kd)
        arr = st.hget(key, z3.ArraySort(sort_of(kd.K), z3.IntSort()))
        st.hset(key, z3.Store(arr, obj.term, z3.Store(rk, k, z3.If(z3.Select(dom_before, k), z3.Select(rk, k), r))))

    def dom_of(self, st, v):
        base = strip_opt(v.ty)
        if isinstance(base, tuple) and base[0] == "MSet":
            return v.term
        if isinstance(base, tuple) and base[0] == "MMap":
            return v.term[0]
        kd = self.kd_of(v)
        if kd.kind not in ("dict", "set"):
            raise Unsupported("dom of %s" % kd.name)
        arr = st.cur_heap_get(self.dom_key(kd), z3.ArraySort(sort_of(kd.K), z3.BoolSort()))
        return z3.Select(arr, v.term)

    def vals_of(self, st, v):
        base = strip_opt(v.ty)
        if isinstance(base, tuple) and base[0] == "MMap":
            return v.term[1]
        kd = self.kd_of(v)
        arr = st.cur_heap_get(self.val_key(kd), z3.ArraySort(sort_of(kd.K), sort_of(strip_opt(kd.V))))
        return z3.Select(arr, v.term)

    def set_dom(self, st, v, dom):
        kd = self.kd_of(v)
        key = self.dom_key(kd)
        arr = st.hget(key, z3.ArraySort(sort_of(kd.K), z3.BoolSort()))
        st.hset(key, z3.Store(arr, v.term, dom))

    def set_vals(self, st, v, vals):
        kd = self.kd_of(v)
        key = self.val_key(kd)
        arr = st.hget(key, z3.ArraySort(sort_of(kd.K), sort_of(strip_opt(kd.V))))
        st.hset(key, z3.Store(arr, v.term, vals))

    def elem_val(self, st, kd, term, guard=None):
        """wrap a content element term of container class kd as Val (guard: the element is in the dom / in range)"""
        vt = kd.V
        if isinstance(vt, tuple) and vt[0] == "Tuple":
            # a stored tuple: unpack the datatype into a Python tuple of component values
            from .vtypes import tuple_sort
            _, _, accs = tuple_sort(vt)
            comps = []
            for a, cty in zip(accs, vt[1]):
                cv = Val(cty, a(term))
                if st.spec_depth == 0:
                    st.assume_type_inv(cv)
                else:
                    self.spec_type_inv(st, cv, guard)
                comps.append(cv)
            return Val(vt, tuple(comps))
        v = Val(vt, term)
        if st.spec_depth == 0:
            st.assume_type_inv(v)
        else:
            self.spec_type_inv(st, v, guard)
        return v

    def owned_elem(self, st, cont, kterm, v):
        """ownership discipline for containers stored as dict values: d[k] is owned by (d, k)"""
        base = strip_opt(v.ty)
        if is_ref(base) and REG.get(base[1]).kind != "object" and not st.in_old and kterm.sort() == IdS:
            own = z3.Implies(z3.And(v.term != NULL, z3.Select(self.dom_of(st, cont), kterm)),
                             z3.And(prelude.owner_obj(v.term) == cont.term, prelude.owner_fld(v.term) == -1,
                                    prelude.owner_key(v.term) == kterm))
            if st.spec_depth == 0 or not st.spec_side:
                st.assume(own)
            else:
                st.spec_side[-1].append(own)
        return v

    def key_term(self, st, kd, k):
        kt = strip_opt(kd.K)
        k = self.coerce(st, k, kt)
        if sort_of(strip_opt(k.ty)) != sort_of(kt):
            raise Unsupported("dict key sort mismatch %s vs %s" % (ty_str(k.ty), ty_str(kt)))
        return k.term

    def list_len(self, st, v):
        arr = st.cur_heap_get("$len", z3.IntSort())
        return z3.Select(arr, v.term)

    def list_items(self, st, v):
        kd = self.kd_of(v)
        arr = st.cur_heap_get("$items#%s" % sort_of(strip_opt(kd.V)), z3.ArraySort(z3.IntSort(), sort_of(strip_opt(kd.V))))
        return z3.Select(arr, v.term)

    def set_list(self, st, v, length, items):
        kd = self.kd_of(v)
        la = st.hget("$len", z3.IntSort())
        st.hset("$len", z3.Store(la, v.term, length))
        key = "$items#%s" % sort_of(strip_opt(kd.V))
        ia = st.hget(key, z3.ArraySort(z3.IntSort(), sort_of(strip_opt(kd.V))))
        st.hset(key, z3.Store(ia, v.term, items))

    def new_dict(self, st, clsname, dom=None, vals=None, hint="d"):
        kd = REG.get(clsname)
        o = st.allocate(clsname, hint)
        if kd.kind in ("dict", "set"):
            self.set_dom(st, o, dom if dom is not None else z3.K(sort_of(kd.K), FALSE))
        if kd.kind == "dict":
            if vals is None:
                vals = st.fresh(z3.ArraySort(sort_of(kd.K), sort_of(strip_opt(kd.V))), "vals0")
            self.set_vals(st, o, vals)
        return o

    def new_list(self, st, clsname, hint="l"):
        o = st.allocate(clsname, hint)
        kd = REG.get(clsname)
        self.set_list(st, o, z3.IntVal(0), st.fresh(z3.ArraySort(z3.IntSort(), sort_of(strip_opt(kd.V))), "items0"))
        return o

    def content_keys(self, kd):
        if kd.kind == "dict":
            ks = [(self.dom_key(kd), z3.ArraySort(sort_of(kd.K), z3.BoolSort())),
                  (self.val_key(kd), z3.ArraySort(sort_of(kd.K), sort_of(strip_opt(kd.V))))]
            if kd.name in REG.ordered:
                ks.append((self.rank_key(kd), z3.ArraySort(sort_of(kd.K), z3.IntSort())))
            return ks
        if kd.kind == "set":
            return [(self.dom_key(kd), z3.ArraySort(sort_of(kd.K), z3.BoolSort()))]
        if kd.kind == "list":
            return [("$len", z3.IntSort()),
                    ("$items#%s" % sort_of(strip_opt(kd.V)), z3.ArraySort(z3.IntSort(), sort_of(strip_opt(kd.V))))]
        return []

    def object_keys(self, clsname):
        """all heap keys (key, sort) that belong to an object of static class clsname (or subclasses)"""
        out = []
        names = set(REG.subclass_names(clsname)) | {clsname}
        seen = set()
        for n in sorted(names):
            kd = REG.get(n)
            for attr, fty in kd.all_fields(REG).items():
                base = strip_opt(fty)
                if isinstance(base, tuple) and base[0] == "MSet":
                    ks = [("%s#mset_%s" % (attr, sort_of(base[1])), z3.ArraySort(sort_of(base[1]), z3.BoolSort()))]
                elif isinstance(base, tuple) and base[0] == "MMap":
                    ks = [("%s#mmapd_%s" % (attr, sort_of(base[1])), z3.ArraySort(sort_of(base[1]), z3.BoolSort())),
                          ("%s#mmapv_%s_%s" % (attr, sort_of(base[1]), sort_of(base[2])),
                           z3.ArraySort(sort_of(base[1]), sort_of(base[2])))]
                elif base == "Fun":
                    ks = []
                else:
                    ks = [(self.field_key(attr, fty), sort_of(base))]
                    if is_opt(fty) and not (is_ref(base) or base in ("Any", "Exc")):
                        ks.append((attr + "#none", z3.BoolSort()))
                for k in ks:
                    if k[0] not in seen:
                        seen.add(k[0])
                        out.append(k)
            for k in self.content_keys(kd):
                if k[0] not in seen:
                    seen.add(k[0])
                    out.append(k)
        return out

    # ==================================================================================
    # names
    # ==================================================================================
    def lookup_name(self, st, name, node=None):
        f = st.frame
        while f is not None:
            if name in f.vars:
                return f.vars[name]
            f = f.parent
        fr = st.frame
        if fr.spec_env is not None and name in fr.spec_env:
            return fr.spec_env[name]
        if name == "GHOST" and st.spec_depth > 0:
            g = z3.Const("ghost_obj", RefS)
            if not getattr(st, "_ghost_obj_init", False):
                st._ghost_obj_init = True
                st.assume(z3.And(g != NULL, st.alloc0[g], st.cls_is(g, "Ghost")))
            return Val(("Ref", "Ghost"), g)
        if st.spec_depth > 0 and name in ("INF", "TRUE", "FALSE"):
            return {"INF": mkreal(INF), "TRUE": mkbool(True), "FALSE": mkbool(False)}[name]
        if name in self.db.specfuns and st.spec_depth > 0:
            return Val("Fun", ("specfun", name))
        if name in prelude.SPEC_BUILTINS and st.spec_depth > 0:
            return Val("Fun", ("specbuiltin", name))
        if name in st.ghost:
            return st.ghost[name]
        mod = fr.module
        if mod is not None:
            r = self.repo.resolve(mod, ast.Name(id=name))
            if r is not None:
                return self.wrap_resolved(st, r)
        if name in prelude.PY_BUILTINS:
            return Val("Fun", ("builtin", name))
        if name in self.exc_parent:
            return Val("Type", ("exc", name))
        if name in prelude.SPEC_BUILTINS:
            return Val("Fun", ("specbuiltin", name))
        if name in self.db.specfuns:
            return Val("Fun", ("specfun", name))
        if REG.has(name) and st.spec_depth > 0:
            return Val("Type", ("regclass", name))
        if name in REG.enums:
            return Val("Type", ("enum", name))
        raise Unsupported("unbound name %r (line %s)" % (name, getattr(node, "lineno", "?")))

    def wrap_resolved(self, st, r):
        if isinstance(r, ModuleInfo):
            return Val("Type", ("module", r))
        if isinstance(r, ClassInfo):
            if r.qualname in REG.enum_qual:
                return Val("Type", ("enum", REG.enum_qual[r.qualname]))
            return Val("Type", ("class", r))
        if isinstance(r, FuncInfo):
            return Val("Fun", ("func", r))
        if isinstance(r, tuple):
            if r[0] == "external":
                return Val("Type", ("external", r[1]))
            if r[0] == "global":
                mod, nm = r[1], r[2]
                expr = mod.globals[nm]
                fr = Frame(None, mod)
                st.frames.append(fr)
                try:
                    return self.eval(st, expr)
                finally:
                    st.frames.pop()
            if r[0] == "classattr":
                ci, nm = r[1], r[2]
                expr = ci.class_attrs[nm]
                fr = Frame(None, ci.module)
                st.frames.append(fr)
                try:
                    return self.eval(st, expr)
                finally:
                    st.frames.pop()
        raise Unsupported("cannot wrap %r" % (r,))

    # ==================================================================================
    # expressions
    # ==================================================================================
    def eval(self, st, node):
        m = getattr(self, "e_" + type(node).__name__, None)
        if m is None:
            raise Unsupported("expression %s at line %s" % (type(node).__name__, getattr(node, "lineno", "?")))
        return m(st, node)

    def e_Constant(self, st, node):
        v = node.value
        if v is None:
            return NONE
        if isinstance(v, bool):
            return mkbool(v)
        if isinstance(v, int):
            return mkint(v)
        if isinstance(v, float):
            from fractions import Fraction
            fr = Fraction(repr(v))
            return Val("Real", z3.RealVal(str(fr)))
        if isinstance(v, str):
            return self.str_const(st, v)
        if v is Ellipsis:
            return NONE
        raise Unsupported("constant %r" % (v,))

    def e_Name(self, st, node):
        return self.lookup_name(st, node.id, node)

    def e_JoinedStr(self, st, node):
        # the text of f-strings is dropped (extraction drop 3): an opaque string
        self.drops.add("f-string text")
        return Val("Str", st.fresh(StrS, "fstr"), extra=("fstr", node))

    def e_Tuple(self, st, node):
        vals = tuple(self.eval(st, e) for e in node.elts)
        return Val(("Tuple", tuple(v.ty for v in vals)), vals)

    def e_List(self, st, node):
        if not node.elts:
            return Val(("Ref", "List[Any]"), None, extra=("emptylist",))
        vals = [self.eval(st, e) for e in node.elts]
        return self.make_list(st, vals, node)

    def make_list(self, st, vals, node=None, elem_ty=None):
        if elem_ty is None:
            if not vals:
                elem_ty = "Any"
            else:
                elem_ty = strip_opt(vals[0].ty)
                for v in vals[1:]:
                    elem_ty = self.join_ty(elem_ty, strip_opt(v.ty))
        cls = "List[%s]" % ty_str(elem_ty)
        REG.parse(cls)
        o = self.new_list(st, cls)
        items = self.list_items(st, o)
        for i, v in enumerate(vals):
            items = z3.Store(items, i, self.coerce(st, v, elem_ty).term)
        self.set_list(st, o, z3.IntVal(len(vals)), items)
        return o

    def join_ty(self, a, b):
        if a == b:
            return a
        if a == "Any":
            return b
        if b == "Any":
            return a
        if {a, b} == {"Int", "Real"}:
            return "Real"
        if is_ref(a) and is_ref(b):
            for anc in REG.get(a[1]).ancestors(REG):
                if anc in REG.get(b[1]).ancestors(REG):
                    return ("Ref", anc)
        if sort_of(a) == sort_of(b):
            return a
        raise Unsupported("cannot join types %s and %s" % (ty_str(a), ty_str(b)))

    def e_Dict(self, st, node):
        if any(k is None for k in node.keys):
            raise Unsupported("dict unpacking")
        ks = [self.eval(st, k) for k in node.keys]
        vs = [self.eval(st, v) for v in node.values]
        if not ks:
            return Val(("Ref", "Dict[Any,Any]"), None, extra=("emptydict",))
        kt = strip_opt(ks[0].ty)
        vt = strip_opt(vs[0].ty)
        for v in vs[1:]:
            vt = self.join_ty(vt, strip_opt(v.ty))
        cls = "Dict[%s,%s]" % (ty_str(kt), ty_str(vt))
        REG.parse(cls)
        o = self.new_dict(st, cls)
        self.dict_store_many(st, o, ks, vs)
        return o

    def dict_store_many(self, st, o, ks, vs):
        kd = self.kd_of(o)
        dom = self.dom_of(st, o)
        vals = self.vals_of(st, o)
        for k, v in zip(ks, vs):
            kt = self.key_term(st, kd, k)
            dom = z3.Store(dom, kt, True)
            vals = z3.Store(vals, kt, self.coerce(st, v, kd.V).term)
        self.set_dom(st, o, dom)
        self.set_vals(st, o, vals)

    def materialize_empty(self, st, v, want_cls):
        """an empty `{}` / `[]` literal gets its class from the context"""
        if v.extra and v.extra[0] == "emptydict" and v.term is None:
            return self.new_dict(st, want_cls)
        return v

    def e_Set(self, st, node):
        vs = [self.eval(st, e) for e in node.elts]
        kt = strip_opt(vs[0].ty)
        cls = "Set[%s]" % ty_str(kt)
        REG.parse(cls)
        o = self.new_dict(st, cls)
        dom = self.dom_of(st, o)
        for v in vs:
            dom = z3.Store(dom, v.term, True)
        self.set_dom(st, o, dom)
        return o

    def e_UnaryOp(self, st, node):
        v = self.eval(st, node.operand)
        if isinstance(node.op, ast.Not):
            return mkbool(z3.Not(self.truthy(st, v)))
        if isinstance(node.op, ast.USub):
            return Val(v.ty, -v.term, v.none)
        if isinstance(node.op, ast.UAdd):
            return v
        raise Unsupported("unary op")

    def e_BoolOp(self, st, node):
        if st.spec_depth > 0:
            ts = [self.truthy(st, self.eval(st, e)) for e in node.values]
            return mkbool(z3.And(*ts) if isinstance(node.op, ast.And) else z3.Or(*ts))
        v = None
        for i, e in enumerate(node.values):
            v = self.eval(st, e)
            if i == len(node.values) - 1:
                break
            t = st.decide(self.truthy(st, v))
            if isinstance(node.op, ast.And) and not t:
                return v
            if isinstance(node.op, ast.Or) and t:
                return v
        return v

    def e_IfExp(self, st, node):
        if st.spec_depth > 0:
            c = self.truthy(st, self.eval(st, node.test))
            a = self.eval(st, node.body)
            b = self.eval(st, node.orelse)
            return self.ite(st, c, a, b)
        if st.decide(self.truthy(st, self.eval(st, node.test))):
            return self.eval(st, node.body)
        return self.eval(st, node.orelse)

    def ite(self, st, c, a, b):
        if a.ty == "NoneT" and b.ty == "NoneT":
            return NONE
        if a.ty == "NoneT":
            a = mk_none(b.ty)
        if b.ty == "NoneT":
            b = mk_none(a.ty)
        ba, bb = strip_opt(a.ty), strip_opt(b.ty)
        if isinstance(ba, tuple) and ba[0] == "Tuple":
            return Val(ba, tuple(self.ite(st, c, x, y) for x, y in zip(a.term, b.term)))
        if isinstance(ba, tuple) and ba[0] == "MMap":
            return Val(ba, (z3.If(c, a.term[0], b.term[0]), z3.If(c, a.term[1], b.term[1])))
        if ba == "Int" and bb == "Real":
            a = self.coerce(st, a, "Real")
            ba = "Real"
        if ba == "Real" and bb == "Int":
            b = self.coerce(st, b, "Real")
        opt = is_opt(a.ty) or is_opt(b.ty) or not z3.is_false(a.none) or not z3.is_false(b.none)
        ty = ("Opt", ba) if opt else ba
        return Val(ty, z3.If(c, a.term, b.term), z3.simplify(z3.If(c, a.none, b.none)))

    def e_NamedExpr(self, st, node):
        v = self.eval(st, node.value)
        self.assign_name(st, node.target.id, v)
        return v

    def e_Lambda(self, st, node):
        return Val("Fun", ("lambda", node, st.frame))

    def e_Attribute(self, st, node):
        obj = self.eval(st, node.value)
        return self.get_attr(st, obj, node.attr, node)

    def e_Subscript(self, st, node):
        obj = self.eval(st, node.value)
        if isinstance(node.slice, ast.Slice):
            return self.eval_slice(st, obj, node.slice, node)
        idx = self.eval(st, node.slice)
        return self.get_item(st, obj, idx, node)

    def e_Compare(self, st, node):
        left = self.eval(st, node.left)
        res = []
        for op, rn in zip(node.ops, node.comparators):
            right = self.eval(st, rn)
            c = self.compare(st, op, left, right, node)
            res.append(c)
            if st.spec_depth == 0 and len(node.ops) > 1:
                if not st.decide(c):
                    return mkbool(False)
            left = right
        if st.spec_depth == 0 and len(node.ops) > 1:
            return mkbool(True)
        return mkbool(z3.And(*res) if len(res) > 1 else res[0])

    def e_BinOp(self, st, node):
        a = self.eval(st, node.left)
        b = self.eval(st, node.right)
        return self.binop(st, node.op, a, b, node)

    def e_Call(self, st, node):
        from . import calls
        return calls.eval_call(self, st, node)

    def e_Await(self, st, node):
        from . import asyncio_model
        return asyncio_model.eval_await(self, st, node)

    def e_ListComp(self, st, node):
        from . import comprehension
        return comprehension.list_comp(self, st, node)

    def e_DictComp(self, st, node):
        from . import comprehension
        return comprehension.dict_comp(self, st, node)

    def e_SetComp(self, st, node):
        from . import comprehension
        return comprehension.set_comp(self, st, node)

    def e_GeneratorExp(self, st, node):
        from . import comprehension
        return comprehension.list_comp(self, st, node)

    def e_Starred(self, st, node):
        raise Unsupported("starred expression at line %s" % node.lineno)

    # -- operators ----------------------------------------------------------------------
    def binop(self, st, op, a, b, node=None):
        ka, kb = self.num_kind(a), self.num_kind(b)
        if is_ref(strip_opt(a.ty)) or is_ref(strip_opt(b.ty)):
            return self.dunder_binop(st, op, a, b, node)
        if ka is None or kb is None:
            if isinstance(op, ast.Mod) and strip_opt(a.ty) == "Str":
                return Val("Str", st.fresh(StrS, "fmt"))
            if isinstance(op, ast.Add) and strip_opt(a.ty) == "Str" and strip_opt(b.ty) == "Str":
                return Val("Str", prelude.str_concat(a.term, b.term))
            raise Unsupported("binop %s on %s,%s (line %s)" % (type(op).__name__, ty_str(a.ty), ty_str(b.ty),
                                                                getattr(node, "lineno", "?")))
        if ka == "Bool":
            a = self.coerce(st, a, "Int")
            ka = "Int"
        if kb == "Bool":
            b = self.coerce(st, b, "Int")
            kb = "Int"
        # datetime arithmetic
        if ka == "DT" or kb == "DT" or ka == "TD" or kb == "TD":
            if isinstance(op, ast.Sub) and ka == "DT" and kb == "DT":
                return Val("TD", a.term - b.term)
            if isinstance(op, ast.Sub) and ka == "DT" and kb == "TD":
                return Val("DT", a.term - b.term)
            if isinstance(op, ast.Add) and {ka, kb} == {"DT", "TD"}:
                return Val("DT", a.term + b.term)
            if isinstance(op, (ast.Add, ast.Sub)) and ka == "TD" and kb == "TD":
                return Val("TD", a.term + b.term if isinstance(op, ast.Add) else a.term - b.term)
            if isinstance(op, ast.Mult) and {ka, kb} == {"TD", "Int"}:
                return Val("TD", a.term * b.term)
            if isinstance(op, ast.Div) and ka == "TD" and kb == "TD":
                if st.spec_depth == 0 and st.decide(b.term == 0):
                    self.raise_(st, "ZeroDivisionError", node)
                return Val("Real", z3.ToReal(a.term) / z3.ToReal(b.term))
            if st.spec_depth > 0 and isinstance(op, (ast.Add, ast.Sub)) and ka in ("DT", "TD") and kb == "Int":
                # specs may add microseconds to a datetime / timedelta directly
                return Val(ka, a.term + b.term if isinstance(op, ast.Add) else a.term - b.term)
            raise Unsupported("datetime arithmetic %s %s %s" % (ka, type(op).__name__, kb))
        real = ka == "Real" or kb == "Real"
        if real:
            self.check_inf(st, a, b, node)
        x = self.to_real(a) if real else a.term
        y = self.to_real(b) if real else b.term
        ty = "Real" if real else "Int"
        if isinstance(op, ast.Add):
            return Val(ty, x + y)
        if isinstance(op, ast.Sub):
            return Val(ty, x - y)
        if isinstance(op, ast.Mult):
            return Val(ty, x * y)
        if isinstance(op, ast.Div):
            if st.spec_depth == 0:
                if st.decide(y == 0):
                    self.raise_(st, "ZeroDivisionError", node)
            return Val("Real", (z3.ToReal(x) if not real else x) / (z3.ToReal(y) if not real else y))
        if isinstance(op, ast.FloorDiv) and not real:
            if st.spec_depth == 0 and st.decide(y == 0):
                self.raise_(st, "ZeroDivisionError", node)
            return Val("Int", prelude.floordiv(x, y))
        if isinstance(op, ast.Mod) and not real:
            if st.spec_depth == 0 and st.decide(y == 0):
                self.raise_(st, "ZeroDivisionError", node)
            return Val("Int", prelude.pymod(x, y))
        if isinstance(op, ast.Mod) and real:
            # float/Decimal modulo over the reals: x - y*floor(x/y) (floats treated as reals: stated assumption)
            if st.spec_depth == 0 and st.decide(y == 0):
                self.raise_(st, "ZeroDivisionError", node)
            return Val("Real", x - y * z3.ToReal(z3.ToInt(x / y)))
        if isinstance(op, ast.Pow):
            ys = z3.simplify(y)
            if z3.is_rational_value(ys) or z3.is_int_value(ys):
                n = ys.as_long() if z3.is_int_value(ys) else (ys.numerator_as_long() if ys.denominator_as_long() == 1 else None)
                if n is not None and 0 <= n <= 4:
                    r = z3.RealVal(1) if real else z3.IntVal(1)
                    for _ in range(n):
                        r = r * x
                    return Val(ty, r)
            raise Unsupported("power with non-constant exponent")
        raise Unsupported("binop %s" % type(op).__name__)

    def check_inf(self, st, a, b, node):
        # arithmetic on Decimal('Infinity') is outside the model: reject if an operand *is* the INF constant
        for v in (a, b):
            if v.term is INF or (z3.is_expr(v.term) and v.term.eq(INF)):
                raise Unsupported("arithmetic on Decimal('Infinity') at line %s" % getattr(node, "lineno", "?"))

    DUNDER = {ast.Add: ("__add__", "__radd__"), ast.Sub: ("__sub__", "__rsub__"), ast.Mult: ("__mul__", "__rmul__")}

    def dunder_binop(self, st, op, a, b, node):
        from . import calls
        names = self.DUNDER.get(type(op))
        if names is None:
            raise Unsupported("operator %s on objects" % type(op).__name__)
        for v, w, nm in ((a, b, names[0]), (b, a, names[1])):
            base = strip_opt(v.ty)
            if is_ref(base):
                fi = self.find_method(base[1], nm)
                if fi is not None:
                    return calls.call_repo(self, st, fi, [v, w], {}, node)
        raise Unsupported("no %s for %s" % (names[0], ty_str(a.ty)))

    def find_method(self, clsname, name):
        """FuncInfo of method `name` for registered class clsname (via repo MRO), or None"""
        for anc in REG.get(clsname).ancestors(REG):
            kd = REG.get(anc)
            if kd.qualname and kd.qualname in self.repo.classes:
                ci = self.repo.classes[kd.qualname]
                fi = ci.find_method(name)
                if fi is not None:
                    return fi
        return None

    def compare(self, st, op, a, b, node=None):
        if isinstance(op, (ast.Is, ast.IsNot)):
            r = self.identical(st, a, b)
            return r if isinstance(op, ast.Is) else z3.Not(r)
        if isinstance(op, (ast.In, ast.NotIn)):
            r = self.contains(st, b, a, node)
            return r if isinstance(op, ast.In) else z3.Not(r)
        if isinstance(op, (ast.Eq, ast.NotEq)):
            r = self.equal(st, a, b)
            return r if isinstance(op, ast.Eq) else z3.Not(r)
        ka, kb = self.num_kind(a), self.num_kind(b)
        if ka is None or kb is None:
            if is_ref(strip_opt(a.ty)) and st.spec_depth == 0:
                return self.dunder_compare(st, op, a, b, node)
            raise Unsupported("ordering on %s,%s (line %s)" % (ty_str(a.ty), ty_str(b.ty), getattr(node, "lineno", "?")))
        if st.spec_depth == 0:
            for v in (a, b):
                if not z3.is_false(v.none):
                    if st.decide(v.none):
                        self.raise_(st, "TypeError", node)
        real = "Real" in (ka, kb)
        x = self.to_real(a) if real else a.term
        y = self.to_real(b) if real else b.term
        if isinstance(op, ast.Lt):
            return x < y
        if isinstance(op, ast.LtE):
            return x <= y
        if isinstance(op, ast.Gt):
            return x > y
        if isinstance(op, ast.GtE):
            return x >= y
        raise Unsupported("compare op")

    def dunder_compare(self, st, op, a, b, node):
        raise Unsupported("ordering comparison on objects (line %s)" % getattr(node, "lineno", "?"))

    def identical(self, st, a, b):
        if a.ty == "NoneT":
            return b.none
        if b.ty == "NoneT":
            return a.none
        ba, bb = strip_opt(a.ty), strip_opt(b.ty)
        if is_ref(ba) and is_ref(bb) or (ba in ("Any", "Exc") or bb in ("Any", "Exc")):
            return a.term == b.term
        return self.equal(st, a, b)

    def equal(self, st, a, b):
        if a.ty == "NoneT":
            return b.none
        if b.ty == "NoneT":
            return a.none
        ba, bb = strip_opt(a.ty), strip_opt(b.ty)
        if isinstance(ba, tuple) and ba[0] == "Tuple":
            if not (isinstance(bb, tuple) and bb[0] == "Tuple") or len(ba[1]) != len(bb[1]):
                return FALSE
            return z3.And(*[self.equal(st, x, y) for x, y in zip(a.term, b.term)])
        if isinstance(ba, tuple) and ba[0] == "MSet":
            return a.term == b.term
        if isinstance(ba, tuple) and ba[0] == "MMap":
            k = z3.FreshConst(sort_of(ba[1]), "k")
            return z3.And(a.term[0] == b.term[0],
                          z3.ForAll([k], z3.Implies(z3.Select(a.term[0], k), z3.Select(a.term[1], k) == z3.Select(b.term[1], k))))
        ka, kb = self.num_kind(a), self.num_kind(b)
        if ka and kb:
            real = "Real" in (ka, kb)
            x = self.to_real(a) if real else a.term
            y = self.to_real(b) if real else b.term
            if ka == "Bool" and kb == "Bool":
                core = a.term == b.term
            elif ka == "Bool" or kb == "Bool":
                x = self.coerce(st, a, "Real" if real else "Int").term
                y = self.coerce(st, b, "Real" if real else "Int").term
                core = x == y
            else:
                core = x == y
        else:
            if is_ref(ba) and is_ref(bb):
                # structural equality for dict-like objects compared with ==
                kd = REG.get(ba[1])
                kb = REG.get(bb[1])
                if kd.kind in ("dict", "set", "list") and kb.kind == kd.kind and a.term is not None and b.term is not None:
                    # == on builtin containers (and dict subclasses without __eq__) is structural
                    return z3.Or(a.term == b.term, self.same_content(st, a, b))
                fi = self.find_method(ba[1], "__eq__")
                if fi is not None:
                    raise Unsupported("user __eq__ on %s" % ba[1])
                core = a.term == b.term
            else:
                try:
                    core = a.term == b.term
                except z3.Z3Exception:
                    return FALSE
        if z3.is_false(a.none) and z3.is_false(b.none):
            return core
        return z3.Or(z3.And(a.none, b.none), z3.And(z3.Not(a.none), z3.Not(b.none), core))

    def same_content(self, st, a, b):
        kd = self.kd_of(a)
        if kd.kind == "dict":
            k = z3.FreshConst(sort_of(kd.K), "k")
            da, db = self.dom_of(st, a), self.dom_of(st, b)
            va, vb = self.vals_of(st, a), self.vals_of(st, b)
            return z3.And(da == db, z3.ForAll([k], z3.Implies(z3.Select(da, k), z3.Select(va, k) == z3.Select(vb, k))))
        if kd.kind == "set":
            return self.dom_of(st, a) == self.dom_of(st, b)
        if kd.kind == "list":
            i = z3.FreshConst(z3.IntSort(), "i")
            la, lb = self.list_len(st, a), self.list_len(st, b)
            ia, ib = self.list_items(st, a), self.list_items(st, b)
            return z3.And(la == lb, z3.ForAll([i], z3.Implies(z3.And(0 <= i, i < la), z3.Select(ia, i) == z3.Select(ib, i))))
        raise Unsupported("same_content on %s" % kd.name)

    def contains(self, st, container, item, node=None):
        base = strip_opt(container.ty)
        if isinstance(base, tuple) and base[0] == "Tuple":
            return z3.Or(*[self.equal(st, item, x) for x in container.term]) if container.term else FALSE
        if isinstance(base, tuple) and base[0] == "MSet":
            return z3.Select(container.term, self.coerce(st, item, base[1]).term)
        if isinstance(base, tuple) and base[0] == "MMap":
            return z3.Select(container.term[0], self.coerce(st, item, base[1]).term)
        if base == "View":
            return self.contains(st, container.term[1], item, node)
        if is_ref(base):
            kd = REG.get(base[1])
            if kd.kind in ("dict", "set"):
                return z3.Select(self.dom_of(st, container), self.key_term(st, kd, item))
            if kd.kind == "list":
                i = st.fresh(z3.IntSort(), "idx") if st.spec_depth == 0 else z3.FreshConst(z3.IntSort(), "idx")
                ln = self.list_len(st, container)
                items = self.list_items(st, container)
                it = self.coerce(st, item, kd.V).term
                # membership as an existential; in program mode decided via a ghost predicate
                return z3.Exists([i], z3.And(0 <= i, i < ln, z3.Select(items, i) == it)) if True else None
        raise Unsupported("`in` on %s (line %s)" % (ty_str(container.ty), getattr(node, "lineno", "?")))

    # -- attribute / item access ---------------------------------------------------------
    def get_attr(self, st, obj, attr, node=None):
        from . import calls
        ty = obj.ty
        base = strip_opt(ty)
        if ty == "Type":
            kind = obj.term[0]
            if kind == "module":
                r = self.repo.resolve_dotted(obj.term[1].name + "." + attr)
                if r is None:
                    mod = obj.term[1]
                    if attr in mod.imports:
                        r2 = self.repo.resolve_dotted(mod.imports[attr])
                        if r2 is not None:
                            return self.wrap_resolved(st, r2)
                        return Val("Type", ("external", mod.imports[attr]))
                    raise Unsupported("module attribute %s.%s" % (obj.term[1].name, attr))
                return self.wrap_resolved(st, r)
            if kind == "external":
                if obj.term[1] == "asyncio" and attr in ("FIRST_COMPLETED", "ALL_COMPLETED", "FIRST_EXCEPTION"):
                    return self.str_const(st, attr)
                return Val("Type", ("external", obj.term[1] + "." + attr))
            if kind == "enum":
                members = REG.enums[obj.term[1]]
                if attr in members:
                    return Val(("Enum", obj.term[1]), z3.IntVal(members[attr]))
                raise Unsupported("enum member %s.%s" % (obj.term[1], attr))
            if kind == "class":
                ci = obj.term[1]
                fm = ci.find_method(attr)
                if fm is not None:
                    return Val("Fun", ("func", fm))
                for c in ci.mro():
                    if attr in c.class_attrs and c.class_attrs[attr] is not None:
                        return self.wrap_resolved(st, ("classattr", c, attr))
                if attr == "__name__":
                    return self.str_const(st, ci.name)
                raise Unsupported("class attribute %s.%s" % (ci.name, attr))
            raise Unsupported("attribute %s of %s" % (attr, obj.term[0]))
        if st.spec_depth == 0 and not z3.is_false(obj.none):
            if st.decide(obj.none):
                self.raise_(st, "AttributeError", node)
        if isinstance(base, tuple) and base[0] == "Val":
            dt, fields = REG.vals[base[1]]
            for i, (f, fty) in enumerate(fields):
                if f == attr:
                    return Val(fty, dt.accessor(0, i)(obj.term))
            raise Unsupported("field %s of value type %s" % (attr, base[1]))
        if isinstance(base, tuple) and base[0] == "Enum":
            if attr == "value":
                return Val("Int", obj.term)
            raise Unsupported("enum attr %s" % attr)
        if base == "TD":
            if attr == "total_seconds":
                return Val("Fun", ("builtin_method", "td.total_seconds", obj))
            raise Unsupported("timedelta attr %s" % attr)
        if base == "DT":
            if attr == "microsecond":
                return Val("Int", prelude.pymod(obj.term, z3.IntVal(1000000)))
            return Val("Fun", ("builtin_method", "dt." + attr, obj))
        if base == "Real":
            return Val("Fun", ("builtin_method", "real." + attr, obj))
        if base in ("Str", "Id"):
            return Val("Fun", ("builtin_method", "str." + attr, obj))
        if base == "Exc":
            return Val("Fun", ("builtin_method", "exc." + attr, obj))
        if base == "Fun":
            return Val("Fun", ("opaque_attr", obj, attr))
        if base == "Any":
            if obj.extra and obj.extra[0] == "uuid" and attr == "hex":
                # assumed: uuid4().hex is fresh -- it is not a key of any existing dict (uniqueness is probabilistic)
                r = obj.extra[1]
                d = z3.FreshConst(RefS, "d")
                dom = st.hget("$dom#Id", z3.ArraySort(IdS, z3.BoolSort()))
                st.assume(z3.ForAll([d], z3.Not(z3.Select(z3.Select(dom, d), r))))
                return Val("Id", r)
            return Val("Fun", ("builtin_method", "any." + attr, obj))
        if is_ref(base):
            clsname = base[1]
            fty = self.field_type(clsname, attr)
            if fty is not None:
                return self.read_field(st, obj, attr, fty)
            fi = self.find_method(clsname, attr)
            if fi is not None:
                if fi.is_property:
                    return calls.call_repo(self, st, fi, [obj], {}, node, is_property=True)
                return Val("Fun", ("bound", fi, obj))
            kd = REG.get(clsname)
            if kd.kind != "object":
                return Val("Fun", ("builtin_method", kd.kind + "." + attr, obj))
            if clsname == "Task" and attr in ("done", "cancel", "cancelled"):
                return Val("Fun", ("builtin_method", "task." + attr, obj))
            # LazyProxy forwarding (DESIGN appendix C)
            if "LazyProxy" in kd.ancestors(REG):
                inner = self.get_attr(st, obj, "obj", node)
                return self.get_attr(st, inner, attr, node)
            if st.spec_depth > 0:
                # specs may name a field of a subclass under a type guard: the heap read is total
                roots = REG.get(clsname).ancestors(REG)
                cands = [n for n in list(REG.klasses) if any(r in REG.get(n).ancestors(REG) for r in roots if REG.get(r).kind == "object")]
                for sub in cands:
                    f2 = self.field_type(sub, attr)
                    if f2 is not None:
                        return self.read_field(st, obj, attr, f2)
            raise Unsupported("attribute %s.%s is not declared in the sidecar registry (line %s)"
                              % (clsname, attr, getattr(node, "lineno", "?")))
        raise Unsupported("attribute %s on %s (line %s)" % (attr, ty_str(ty), getattr(node, "lineno", "?")))

    def set_attr(self, st, obj, attr, val, node=None):
        from . import calls
        base = strip_opt(obj.ty)
        if not is_ref(base):
            raise Unsupported("attribute store on %s" % ty_str(obj.ty))
        if st.spec_depth == 0 and not z3.is_false(obj.none):
            if st.decide(obj.none):
                self.raise_(st, "AttributeError", node)
        fty = self.field_type(base[1], attr)
        if fty is None:
            kd = REG.get(base[1])
            if kd.qualname and kd.qualname in self.repo.classes:
                fs = self.repo.classes[kd.qualname].find_setter(attr)
                if fs is not None:
                    calls.call_repo(self, st, fs, [obj, val], {}, node)
                    return
            raise Unsupported("store to undeclared attribute %s.%s (line %s)" % (base[1], attr, getattr(node, "lineno", "?")))
        if val.extra and val.extra[0] in ("emptydict", "emptylist", "emptyset") and val.term is None and is_ref(strip_opt(fty)):
            cls_ = strip_opt(fty)[1]
            val = self.new_list(st, cls_) if REG.get(cls_).kind == "list" else self.new_dict(st, cls_)
        self.write_field(st, obj, attr, fty, val)

    def get_item(self, st, obj, idx, node=None):
        base = strip_opt(obj.ty)
        if isinstance(base, tuple) and base[0] == "Tuple":
            i = z3.simplify(idx.term)
            if z3.is_int_value(i):
                return obj.term[i.as_long()]
            raise Unsupported("tuple index not constant")
        if isinstance(base, tuple) and base[0] == "MMap":
            return Val(base[2], z3.Select(obj.term[1], self.coerce(st, idx, base[1]).term))
        if is_ref(base):
            kd = REG.get(base[1])
            if kd.kind == "dict":
                k = self.key_term(st, kd, idx)
                if st.spec_depth == 0:
                    if not st.decide(z3.Select(self.dom_of(st, obj), k)):
                        self.raise_(st, "KeyError", node)
                return self.owned_elem(st, obj, k, self.elem_val(st, kd, z3.Select(self.vals_of(st, obj), k), z3.Select(self.dom_of(st, obj), k)))
            if kd.kind == "list":
                ln = self.list_len(st, obj)
                i = idx.term
                iv = z3.simplify(i)
                if z3.is_int_value(iv) and iv.as_long() < 0:
                    i = ln + i
                if st.spec_depth == 0:
                    if not st.decide(z3.And(0 <= i, i < ln)):
                        self.raise_(st, "IndexError", node)
                return self.elem_val(st, kd, z3.Select(self.list_items(st, obj), i), z3.And(0 <= i, i < ln))
            if kd.kind == "set" and is_ref(strip_opt(kd.K)) and strip_opt(kd.K)[1] in REG.heap_key:
                return self.heap_peek(st, obj, idx, node)
            fi = self.find_method(base[1], "__getitem__")
            if fi is not None:
                from . import calls
                return calls.call_repo(self, st, fi, [obj, idx], {}, node)
        raise Unsupported("subscript on %s (line %s)" % (ty_str(obj.ty), getattr(node, "lineno", "?")))

    def heap_key_of(self, st, kd, ref_term):
        cls = strip_opt(kd.K)[1]
        attr = REG.heap_key[cls]
        fty = self.field_type(cls, attr)
        arr = st.cur_heap_get(self.field_key(attr, fty), sort_of(strip_opt(fty)))
        return z3.Select(arr, ref_term)

    def heap_min(self, st, obj, node=None):
        """an element with a minimal key (assumed heapq contract: index 0 of a heap list / heappop)"""
        kd = self.kd_of(obj)
        dom = self.dom_of(st, obj)
        ks = sort_of(kd.K)
        if st.spec_depth == 0 and not st.decide(dom != z3.K(ks, FALSE)):
            self.raise_(st, "IndexError", node)
        r = st.fresh(ks, "heapmin")
        st.assume(z3.Select(dom, r))
        o = z3.FreshConst(ks, "o")
        st.assume(z3.ForAll([o], z3.Implies(z3.Select(dom, o), self.heap_key_of(st, kd, r) <= self.heap_key_of(st, kd, o))))
        v = Val(kd.K, r)
        st.assume_type_inv(v)
        return v

    def heap_peek(self, st, obj, idx, node=None):
        iv = z3.simplify(idx.term)
        if z3.is_int_value(iv) and iv.as_long() == 0:
            return self.heap_min(st, obj, node)
        if z3.is_int_value(iv) and iv.as_long() == -1:
            # the last slot of a heap list is *some* element (any leaf): no ordering guarantee
            kd = self.kd_of(obj)
            dom = self.dom_of(st, obj)
            ks = sort_of(kd.K)
            if st.spec_depth == 0 and not st.decide(dom != z3.K(ks, FALSE)):
                self.raise_(st, "IndexError", node)
            r = st.fresh(ks, "heaplast")
            st.assume(z3.Select(dom, r))
            v = Val(kd.K, r)
            st.assume_type_inv(v)
            return v
        raise Unsupported("index into a heap list other than [0] / [-1]")

    def set_item(self, st, obj, idx, val, node=None):
        base = strip_opt(obj.ty)
        if is_ref(base):
            kd = REG.get(base[1])
            if kd.kind == "dict":
                k = self.key_term(st, kd, idx)
                self.note_insert(st, obj, k, self.dom_of(st, obj))
                self.set_dom(st, obj, z3.Store(self.dom_of(st, obj), k, True))
                self.set_vals(st, obj, z3.Store(self.vals_of(st, obj), k, self.coerce(st, val, kd.V).term))
                return
            if kd.kind == "list":
                ln = self.list_len(st, obj)
                if not st.decide(z3.And(0 <= idx.term, idx.term < ln)):
                    self.raise_(st, "IndexError", node)
                self.set_list(st, obj, ln, z3.Store(self.list_items(st, obj), idx.term, self.coerce(st, val, kd.V).term))
                return
        raise Unsupported("subscript store on %s (line %s)" % (ty_str(obj.ty), getattr(node, "lineno", "?")))

    def del_item(self, st, obj, idx, node=None):
        kd = self.kd_of(obj)
        if kd.kind == "dict":
            k = self.key_term(st, kd, idx)
            if not st.decide(z3.Select(self.dom_of(st, obj), k)):
                self.raise_(st, "KeyError", node)
            self.set_dom(st, obj, z3.Store(self.dom_of(st, obj), k, False))
            return
        raise Unsupported("del on %s" % kd.name)

    def eval_slice(self, st, obj, sl, node):
        kd = self.kd_of(obj)
        if kd.kind != "list" or sl.step is not None:
            raise Unsupported("slice")
        ln = self.list_len(st, obj)
        lo = self.eval(st, sl.lower).term if sl.lower is not None else z3.IntVal(0)
        hi = self.eval(st, sl.upper).term if sl.upper is not None else ln
        lo = z3.If(lo < 0, z3.IntVal(0), z3.If(lo > ln, ln, lo))
        hi = z3.If(hi < lo, lo, z3.If(hi > ln, ln, hi))
        o = self.new_list(st, strip_opt(obj.ty)[1])
        i = z3.FreshConst(z3.IntSort(), "i")
        items = st.deflam([i], z3.Select(self.list_items(st, obj), i + lo))
        self.set_list(st, o, hi - lo, items)
        return o

    # ==================================================================================
    # statements
    # ==================================================================================
    def exec_block(self, st, stmts):
        for s in stmts:
            self.exec_stmt(st, s)

    def exec_stmt(self, st, s):
        m = getattr(self, "s_" + type(s).__name__, None)
        if m is None:
            raise Unsupported("statement %s at line %s" % (type(s).__name__, getattr(s, "lineno", "?")))
        return m(st, s)

    def s_Pass(self, st, s):
        pass

    def s_Expr(self, st, s):
        if isinstance(s.value, ast.Constant):
            return
        if isinstance(s.value, (ast.Yield, ast.YieldFrom)):
            from . import generators
            return generators.exec_yield(self, st, s.value)
        self.eval(st, s.value)

    def s_Return(self, st, s):
        v = self.eval(st, s.value) if s.value is not None else NONE
        raise ReturnExc(v)

    def s_Break(self, st, s):
        raise BreakExc()

    def s_Continue(self, st, s):
        raise ContinueExc()

    def s_Global(self, st, s):
        raise Unsupported("global statement")

    def s_Import(self, st, s):
        pass

    def s_ImportFrom(self, st, s):
        pass

    def s_FunctionDef(self, st, s):
        st.locals[s.name] = Val("Fun", ("closure", s, st.frame))

    s_AsyncFunctionDef = s_FunctionDef

    def s_Assert(self, st, s):
        c = self.truthy(st, self.eval(st, s.test))
        if not st.decide(c):
            self.raise_(st, "AssertionError", s)

    def s_Raise(self, st, s):
        if s.exc is None:
            if not st.cur_exc:
                raise Unsupported("bare raise outside handler")
            raise RaiseExc(st.cur_exc[-1])
        v = self.eval(st, s.exc)
        if v.ty == "Exc" and isinstance(v.extra, ExcVal):
            raise RaiseExc(v.extra, where=s.lineno)
        if v.ty == "Type" and v.term[0] == "exc":
            raise RaiseExc(ExcVal(v.term[1], True), where=s.lineno)
        if v.ty == "Type" and v.term[0] == "class" and v.term[1].name in self.exc_parent:
            raise RaiseExc(ExcVal(v.term[1].name, True), where=s.lineno)
        raise Unsupported("raise of %s" % ty_str(v.ty))

    def s_If(self, st, s):
        if st.decide(self.truthy(st, self.eval(st, s.test))):
            self.exec_block(st, s.body)
        else:
            self.exec_block(st, s.orelse)

    def s_Assign(self, st, s):
        v = self.eval(st, s.value)
        for t in s.targets:
            self.assign(st, t, v)

    def s_AnnAssign(self, st, s):
        if s.value is None:
            return
        v = self.eval(st, s.value)
        # an annotated empty container gets its class from the annotation
        if v.extra and v.extra[0] in ("emptydict", "emptylist", "emptyset") and v.term is None:
            from . import calls
            ty = calls.annotation_type(self, st, s.annotation)
            c_ = self.active_contract(st.frame.func) if st.frame.func is not None else None
            if isinstance(s.target, ast.Name) and c_ is not None and s.target.id in c_.types:
                ty = REG.parse(c_.types[s.target.id])      # sidecar override of a local's annotation (str -> Id)
            if isinstance(s.target, ast.Attribute):
                ob_ = self.eval(st, s.target.value)
                if is_ref(strip_opt(ob_.ty)):
                    fty_ = self.field_type(strip_opt(ob_.ty)[1], s.target.attr)
                    if fty_ is not None:
                        ty = fty_
            if ty is not None and is_ref(strip_opt(ty)):
                cls = strip_opt(ty)[1]
                v = self.new_dict(st, cls) if REG.get(cls).kind != "list" else self.new_list(st, cls)
        if v.ty == "NoneT" and isinstance(s.target, ast.Name):
            # `x: Optional[T] = None`: keep the declared type so that specs can speak about x.attr under a guard
            from . import calls
            ty = calls.annotation_type(self, st, s.annotation)
            if ty is not None and is_opt(ty) and strip_opt(ty) not in ("Any", None):
                from .vtypes import mk_none
                v = mk_none(ty)
        self.assign(st, s.target, v)

    def s_AugAssign(self, st, s):
        from . import calls
        cur = self.eval(st, s.target)
        rhs = self.eval(st, s.value)
        base = strip_opt(cur.ty)
        if is_ref(base):
            nm = {ast.Add: "__iadd__", ast.Sub: "__isub__", ast.Mult: "__imul__"}.get(type(s.op))
            fi = self.find_method(base[1], nm) if nm else None
            if fi is not None:
                res = calls.call_repo(self, st, fi, [cur, rhs], {}, s)
                self.assign(st, s.target, res)
                return
            kd = REG.get(base[1])
            if kd.kind == "list" and isinstance(s.op, ast.Add):
                raise Unsupported("list +=")
        res = self.binop(st, s.op, cur, rhs, s)
        self.assign(st, s.target, res)

    def s_Delete(self, st, s):
        for t in s.targets:
            if isinstance(t, ast.Subscript):
                obj = self.eval(st, t.value)
                idx = self.eval(st, t.slice)
                self.del_item(st, obj, idx, s)
            else:
                raise Unsupported("del of %s" % type(t).__name__)

    def assign_name(self, st, name, v):
        # closures: assignment binds in the frame where the name is local (python: current frame)
        st.locals[name] = v

    def assign(self, st, target, v):
        if isinstance(target, ast.Name):
            self.assign_name(st, target.id, v)
        elif isinstance(target, ast.Attribute):
            obj = self.eval(st, target.value)
            self.set_attr(st, obj, target.attr, v, target)
        elif isinstance(target, ast.Subscript):
            obj = self.eval(st, target.value)
            idx = self.eval(st, target.slice)
            if obj.extra and obj.extra[0] == "emptydict" and obj.term is None:
                # `x = {}` ... `x[k] = v`: the literal gets its class from the first store
                cls = "Dict[%s,%s]" % (ty_str(strip_opt(idx.ty)), ty_str(strip_opt(v.ty)))
                REG.parse(cls)
                obj = self.new_dict(st, cls)
                self.assign(st, target.value, obj)
            self.set_item(st, obj, idx, v, target)
        elif isinstance(target, (ast.Tuple, ast.List)):
            base = strip_opt(v.ty)
            if isinstance(base, tuple) and base[0] == "Tuple":
                if len(base[1]) != len(target.elts):
                    self.raise_(st, "ValueError", target)
                for t, x in zip(target.elts, v.term):
                    self.assign(st, t, x)
            else:
                raise Unsupported("unpacking of %s" % ty_str(v.ty))
        else:
            raise Unsupported("assignment target %s" % type(target).__name__)

    def s_Try(self, st, s):
        try:
            try:
                self.exec_block(st, s.body)
            except RaiseExc as r:
                handled = False
                for h in s.handlers:
                    classes = self.handler_classes(st, h)
                    if self.exc_match(st, r.exc, classes):
                        handled = True
                        if h.name:
                            st.locals[h.name] = Val("Exc", st.fresh(RefS, "exc"), extra=r.exc)
                        st.cur_exc.append(r.exc)
                        try:
                            self.exec_block(st, h.body)
                        finally:
                            st.cur_exc.pop()
                        break
                if not handled:
                    raise
            else:
                self.exec_block(st, s.orelse)
        except (RaiseExc, ReturnExc, BreakExc, ContinueExc):
            # finally runs on the way out; if it completes normally the original outcome continues
            if s.finalbody:
                self.exec_block(st, s.finalbody)
            raise
        else:
            if s.finalbody:
                self.exec_block(st, s.finalbody)

    def handler_classes(self, st, h):
        if h.type is None:
            return ["BaseException"]
        elts = h.type.elts if isinstance(h.type, ast.Tuple) else [h.type]
        out = []
        for e in elts:
            v = self.eval(st, e)
            if v.ty == "Type" and v.term[0] == "exc":
                out.append(v.term[1])
            elif v.ty == "Type" and v.term[0] == "class":
                out.append(v.term[1].name)
            elif v.ty == "Type" and v.term[0] == "external":
                out.append(v.term[1].split(".")[-1])
            else:
                raise Unsupported("except clause type")
        return out

    def s_While(self, st, s):
        from . import loops
        return loops.exec_while(self, st, s)

    def s_For(self, st, s):
        from . import loops
        return loops.exec_for(self, st, s)

    def s_With(self, st, s):
        from . import generators
        return generators.exec_with(self, st, s)

    def s_AsyncWith(self, st, s):
        from . import generators
        return generators.exec_with(self, st, s, is_async=True)

    def s_AsyncFor(self, st, s):
        from . import loops
        return loops.exec_for(self, st, s)
