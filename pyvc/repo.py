"""Loading of the *current* /repo source: module ASTs, class/function index, name resolution.

Nothing is cached across runs: every check parses /repo/basana again, so the verified text is
the text that runs.
"""
import ast
import hashlib
import os

REPO_ROOT = os.environ.get("PYVC_REPO", "/repo")
PKG = "basana"


class FuncInfo:
    def __init__(self, qualname, module, cls, node, path):
        self.qualname = qualname      # e.g. basana.backtesting.value_map.ValueMap.__add__
        self.module = module          # ModuleInfo
        self.cls = cls                # ClassInfo or None
        self.node = node              # ast.FunctionDef / AsyncFunctionDef
        self.path = path
        self.name = node.name
        self.is_async = isinstance(node, ast.AsyncFunctionDef)
        decos = [ast.unparse(d) for d in node.decorator_list]
        self.decorators = decos
        self.is_property = any(d == "property" or d.endswith(".getter") for d in decos)
        self.is_setter = any(d.endswith(".setter") for d in decos)
        self.is_abstract = any("abstractmethod" in d for d in decos)
        self.is_static = any(d == "staticmethod" for d in decos)
        self.is_classmethod = any(d == "classmethod" for d in decos)
        self.is_ctxmgr = any("contextmanager" in d for d in decos)
        self.is_generator = any(isinstance(n, (ast.Yield, ast.YieldFrom)) for n in ast.walk(node))

    @property
    def text(self):
        return ast.unparse(self.node)

    @property
    def sha(self):
        return hashlib.sha256(ast.dump(self.node, include_attributes=False).encode()).hexdigest()[:16]

    @property
    def loc(self):
        return "%s:%d" % (os.path.relpath(self.path, REPO_ROOT), self.node.lineno)


class ClassInfo:
    def __init__(self, qualname, module, node):
        self.qualname = qualname
        self.module = module
        self.node = node
        self.name = node.name
        self.methods = {}   # name -> FuncInfo (getter for properties)
        self.setters = {}
        self.base_exprs = [b for b in node.bases]
        self.bases = []     # resolved ClassInfo / builtin names (str)
        self.class_attrs = {}  # name -> ast expr (simple class-level assignments)

    def mro(self):
        out = [self]
        for b in self.bases:
            if isinstance(b, ClassInfo):
                for c in b.mro():
                    if c not in out:
                        out.append(c)
        return out

    def find_method(self, name):
        for c in self.mro():
            if name in c.methods:
                return c.methods[name]
        return None

    def find_setter(self, name):
        for c in self.mro():
            if name in c.setters:
                return c.setters[name]
        return None

    def builtin_bases(self):
        out = []
        for c in self.mro():
            for b in c.bases:
                if isinstance(b, str):
                    out.append(b)
        return out

    def is_subclass_of(self, other):
        return other in self.mro()


class ModuleInfo:
    def __init__(self, name, path, tree, is_pkg):
        self.name = name
        self.path = path
        self.tree = tree
        self.is_pkg = is_pkg
        self.imports = {}    # local name -> dotted target
        self.classes = {}
        self.functions = {}
        self.globals = {}    # name -> ast expr (module level simple assignments)


class Repo:
    def __init__(self, root=None):
        self.root = root or REPO_ROOT
        self.modules = {}
        self.classes = {}     # qualname -> ClassInfo
        self.functions = {}   # qualname -> FuncInfo
        self._load()
        self._link()

    # -- loading -----------------------------------------------------------------------
    def _load(self):
        base = os.path.join(self.root, PKG)
        for dirpath, dirnames, filenames in os.walk(base):
            dirnames.sort()
            for fn in sorted(filenames):
                if not fn.endswith(".py"):
                    continue
                path = os.path.join(dirpath, fn)
                rel = os.path.relpath(path, self.root)[:-3].replace(os.sep, ".")
                is_pkg = rel.endswith(".__init__")
                if is_pkg:
                    rel = rel[: -len(".__init__")]
                with open(path, "rb") as f:
                    src = f.read()
                try:
                    tree = ast.parse(src, filename=path)
                except SyntaxError:
                    continue
                self.modules[rel] = ModuleInfo(rel, path, tree, is_pkg)
        for m in self.modules.values():
            self._index_module(m)

    def _index_module(self, m):
        for node in m.tree.body:
            if isinstance(node, ast.Import):
                for a in node.names:
                    if a.asname:
                        m.imports[a.asname] = a.name
                    else:
                        m.imports[a.name.split(".")[0]] = a.name.split(".")[0]
            elif isinstance(node, ast.ImportFrom):
                if node.level:
                    parts = m.name.split(".")
                    if not m.is_pkg:
                        parts = parts[:-1]
                    parts = parts[: len(parts) - (node.level - 1)]
                    basemod = ".".join(parts + ([node.module] if node.module else []))
                else:
                    basemod = node.module
                for a in node.names:
                    m.imports[a.asname or a.name] = basemod + "." + a.name
            elif isinstance(node, ast.ClassDef):
                self._index_class(m, node, m.name)
            elif isinstance(node, (ast.FunctionDef, ast.AsyncFunctionDef)):
                fi = FuncInfo(m.name + "." + node.name, m, None, node, m.path)
                m.functions[node.name] = fi
                self.functions[fi.qualname] = fi
            elif isinstance(node, ast.Assign) and len(node.targets) == 1 and isinstance(node.targets[0], ast.Name):
                m.globals[node.targets[0].id] = node.value
            elif isinstance(node, ast.AnnAssign) and isinstance(node.target, ast.Name) and node.value is not None:
                m.globals[node.target.id] = node.value

    def _index_class(self, m, node, prefix):
        ci = ClassInfo(prefix + "." + node.name, m, node)
        m.classes[node.name] = ci
        self.classes[ci.qualname] = ci
        for sub in node.body:
            if isinstance(sub, (ast.FunctionDef, ast.AsyncFunctionDef)):
                fi = FuncInfo(ci.qualname + "." + sub.name, m, ci, sub, m.path)
                if fi.is_setter:
                    ci.setters[sub.name] = fi
                    self.functions[fi.qualname + ".setter"] = fi
                else:
                    ci.methods[sub.name] = fi
                    self.functions[fi.qualname] = fi
            elif isinstance(sub, ast.Assign) and len(sub.targets) == 1 and isinstance(sub.targets[0], ast.Name):
                ci.class_attrs[sub.targets[0].id] = sub.value
            elif isinstance(sub, ast.AnnAssign) and isinstance(sub.target, ast.Name):
                ci.class_attrs[sub.target.id] = sub.value  # may be None (dataclass field w/o default)

    def _link(self):
        for ci in self.classes.values():
            for b in ci.base_exprs:
                # Generic[T] / Protocol etc.
                if isinstance(b, ast.Subscript):
                    b = b.value
                target = self.resolve(ci.module, b)
                if isinstance(target, ClassInfo):
                    ci.bases.append(target)
                else:
                    ci.bases.append(ast.unparse(b))

    # -- resolution --------------------------------------------------------------------
    def resolve_dotted(self, dotted):
        """dotted absolute name -> ModuleInfo | ClassInfo | FuncInfo | ('global', module, name) | None"""
        if dotted in self.modules:
            return self.modules[dotted]
        if dotted in self.classes:
            return self.classes[dotted]
        if dotted in self.functions:
            return self.functions[dotted]
        if "." in dotted:
            head, tail = dotted.rsplit(".", 1)
            parent = self.resolve_dotted(head)
            if isinstance(parent, ModuleInfo):
                if tail in parent.classes:
                    return parent.classes[tail]
                if tail in parent.functions:
                    return parent.functions[tail]
                if tail in parent.imports:
                    return self.resolve_dotted(parent.imports[tail])
                if tail in parent.globals:
                    return ("global", parent, tail)
            elif isinstance(parent, ClassInfo):
                fm = parent.find_method(tail)
                if fm:
                    return fm
                for c in parent.mro():
                    if tail in c.class_attrs:
                        return ("classattr", c, tail)
        return None

    def resolve(self, module, expr):
        """Resolve a Name / dotted Attribute expression occurring in `module`."""
        parts = []
        e = expr
        while isinstance(e, ast.Attribute):
            parts.append(e.attr)
            e = e.value
        if not isinstance(e, ast.Name):
            return None
        parts.append(e.id)
        parts.reverse()
        head = parts[0]
        if head in module.classes:
            target = module.classes[head].qualname
        elif head in module.functions:
            target = module.functions[head].qualname
        elif head in module.imports:
            target = module.imports[head]
        elif head in module.globals:
            if len(parts) == 1:
                return ("global", module, head)
            return None
        else:
            return None
        dotted = ".".join([target] + parts[1:])
        r = self.resolve_dotted(dotted)
        if r is None:
            return ("external", dotted)
        return r

    def subclasses(self, ci):
        return [c for c in self.classes.values() if c is not ci and c.is_subclass_of(ci)]
