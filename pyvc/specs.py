"""Evaluation of contract clauses (spec mode: pure term building, no path forking)."""
import ast
import z3

from .vtypes import (RefS, StrS, NULL, INF, Val, NONE, REG, sort_of, is_ref, is_opt, strip_opt, FALSE, TRUE, ty_str,
                     mk_none)
from .state import Frame, Unsupported
from . import prelude
from .interp import mkbool, mkint, mkreal


def eval_spec(I, st, node, env, fi=None):
    """evaluate a spec expression node under env (name -> Val); returns Val"""
    fr = Frame(fi, fi.module if fi is not None else (st.frames[-1].module if st.frames else None))
    fr.spec_env = env
    st.frames.append(fr)
    st.spec_depth += 1
    st.spec_side.append([])
    try:
        return I.eval(st, node)
    finally:
        st.spec_depth -= 1
        st.frames.pop()
        for f in st.spec_side.pop():
            if st.spec_side:
                st.spec_side[-1].append(f)
            else:
                st.assume(f)


def eval_clause(I, st, clause, env, fi=None, allow_effects=False):
    """evaluate a clause to a z3 Bool"""
    prev = getattr(st, "assumed_toplevel", None)
    # an assumed clause of the form exists(lambda x: ...) is skolemised (x may be an object the callee allocated)
    st.assumed_toplevel = clause.node if allow_effects else None
    try:
        v = eval_spec(I, st, clause.node, env, fi)
    except Unsupported as e:
        raise Unsupported("in clause %r: %s" % (clause.text, e))
    finally:
        st.assumed_toplevel = prev
    return I.truthy(st, v)


def _set_sort(v):
    base = strip_opt(v.ty)
    if isinstance(base, tuple) and base[0] == "MSet":
        return base[1]
    return None


def spec_builtin(I, st, name, args, kwargs, node):
    if name == "implies":
        return mkbool(z3.Implies(I.truthy(st, args[0]), I.truthy(st, args[1])))
    if name == "iff":
        return mkbool(I.truthy(st, args[0]) == I.truthy(st, args[1]))
    if name == "xor":
        return mkbool(z3.Xor(I.truthy(st, args[0]), I.truthy(st, args[1])))
    if name == "ite":
        return I.ite(st, I.truthy(st, args[0]), args[1], args[2])
    if name in ("at", "val_at"):
        m, k = args[0], args[1]
        if m.ty == "NoneT" or (m.extra and m.extra[0] == "emptydict" and m.term is None):
            return mkreal(0)
        base = strip_opt(m.ty)
        if isinstance(base, tuple) and base[0] == "MMap":
            kt = I.coerce(st, k, base[1]).term
            dflt = z3.RealVal(0) if base[2] == "Real" else z3.IntVal(0)
            return Val(base[2], z3.If(z3.Select(m.term[0], kt), z3.Select(m.term[1], kt), dflt))
        kd = I.kd_of(m)
        kt = I.key_term(st, kd, k)
        vt = strip_opt(kd.V)
        dflt = z3.RealVal(0) if vt == "Real" else z3.IntVal(0)
        return Val(vt, z3.If(z3.Select(I.dom_of(st, m), kt), z3.Select(I.vals_of(st, m), kt), dflt))
    if name == "has":
        return mkbool(I.contains(st, args[0], args[1], node))
    if name == "dom":
        m = args[0]
        base = strip_opt(m.ty)
        if isinstance(base, tuple) and base[0] == "MMap":
            return Val(("MSet", base[1]), m.term[0])
        kd = I.kd_of(m)
        return Val(("MSet", kd.K), I.dom_of(st, m))
    if name == "mset_of":
        return spec_builtin(I, st, "dom", args, kwargs, node)
    if name == "mmap_of":
        m = args[0]
        kd = I.kd_of(m)
        return Val(("MMap", kd.K, strip_opt(kd.V)), (I.dom_of(st, m), I.vals_of(st, m)))
    if name == "mset_empty":
        ty = REG.parse(ast.unparse(node.args[0])) if node.args else "Str"
        return Val(("MSet", ty), z3.K(sort_of(ty), FALSE))
    if name == "mset_single":
        v = args[0]
        return Val(("MSet", strip_opt(v.ty)), z3.Store(z3.K(sort_of(strip_opt(v.ty)), FALSE), v.term, True))
    if name == "mset_add":
        s, v = args
        return Val(s.ty, z3.Store(s.term, v.term, True))
    if name == "mset_remove":
        s, v = args
        return Val(s.ty, z3.Store(s.term, v.term, False))
    if name == "mset_union":
        a, b = args
        k = z3.FreshConst(a.term.sort().domain(), "k")
        return Val(a.ty, st.deflam([k], z3.Or(z3.Select(a.term, k), z3.Select(b.term, k))))
    if name == "subset":
        a, b = args
        da, db = I.dom_of(st, a), I.dom_of(st, b)
        k = z3.FreshConst(da.sort().domain(), "k")
        return mkbool(z3.ForAll([k], z3.Implies(z3.Select(da, k), z3.Select(db, k))))
    if name == "disjoint":
        a, b = args
        da, db = I.dom_of(st, a), I.dom_of(st, b)
        k = z3.FreshConst(da.sort().domain(), "k")
        return mkbool(z3.ForAll([k], z3.Not(z3.And(z3.Select(da, k), z3.Select(db, k)))))
    if name == "card":
        return mkint(prelude.card(I.dom_of(st, args[0])))
    if name == "fresh":
        o = args[0]
        pre_alloc = st.old_alloc if st.old_alloc is not None else st.alloc0
        # `fresh(result)` in an assumed postcondition allocates the object
        if not st.in_old and not (st.bound_stack and any(o.term.eq(b) for b in st.bound_stack)):
            st.alloc = z3.Store(st.alloc, o.term, True)
        return mkbool(z3.And(o.term != NULL, z3.Not(z3.Select(pre_alloc, o.term))))
    if name == "allocated":
        return mkbool(z3.Select(st.cur_alloc(), args[0].term))
    if name == "same_object":
        return mkbool(args[0].term == args[1].term)
    if name == "unchanged":
        return mkbool(z3.And(*[unchanged_obj(I, st, o) for o in args]) if args else TRUE)
    if name == "content_unchanged":
        return mkbool(z3.And(*[unchanged_obj(I, st, o, content_only=True) for o in args]))
    if name == "same_content":
        a, b = args
        for x, y in ((a, b), (b, a)):
            if x.extra and x.extra[0] == "emptydict" and x.term is None:
                kd = I.kd_of(y)
                return mkbool(I.dom_of(st, y) == z3.K(sort_of(kd.K), FALSE))
        return mkbool(I.same_content(st, a, b))
    if name == "typeis":
        o = args[0]
        nm = node.args[1].value if isinstance(node.args[1], ast.Constant) else ast.unparse(node.args[1])
        return mkbool(st.cls_is(o.term, nm))
    if name == "cls_of":
        return mkint(z3.Select(st.cls_arr(), args[0].term))
    if name == "is_none":
        return mkbool(args[0].none)
    if name == "not_none":
        return mkbool(z3.Not(args[0].none))
    if name in ("grid",):
        return mkbool(prelude.grid(I.to_real(args[0]), args[1].term))
    if name == "unit":
        return mkreal(prelude.unit(args[0].term))
    if name in ("q_down", "q_up", "q_he"):
        return mkreal(prelude.QFUNS[name](I.to_real(args[0]), args[1].term))
    if name == "to_real":
        return mkreal(I.to_real(args[0]))
    if name == "to_int":
        return mkint(z3.ToInt(args[0].term))
    if name == "floor":
        return mkint(z3.ToInt(I.to_real(args[0])))
    if name == "idiv":
        return mkint(prelude.floordiv(args[0].term, args[1].term))
    if name == "imod":
        return mkint(prelude.pymod(args[0].term, args[1].term))
    if name == "seq_len":
        return mkint(I.list_len(st, args[0]))
    if name == "seq_at":
        kd = I.kd_of(args[0])
        return I.elem_val(st, kd, z3.Select(I.list_items(st, args[0]), args[1].term),
                          z3.And(0 <= args[1].term, args[1].term < I.list_len(st, args[0])))
    if name == "select":
        return Val(args[0].ty[2] if isinstance(args[0].ty, tuple) else "Any", z3.Select(args[0].term, args[1].term))
    if name == "clock":
        from . import asyncio_model
        which = node.args[0].value if node.args else "time"
        return asyncio_model.clock_value(I, st, which, old=st.in_old and st.old_heap is None)
    if name == "gathered_count":
        from . import asyncio_model
        return mkint(asyncio_model.gathered_count(I, st, node.args[0].value, args[1]))
    if name == "rank":
        d, k = args
        kd = I.kd_of(d)
        return mkint(z3.Select(I.rank_of(st, d), I.key_term(st, kd, k)))
    if name == "ufun":
        # ufun('name', 'RetType', args...): an uninterpreted function of the *values* of its arguments (a dict argument
        # contributes its key set and its value map, so equal contents give equal results)
        fname = node.args[0].value
        rty = REG.parse(node.args[1].value)
        terms = []
        for a in args[2:]:
            base = strip_opt(a.ty)
            if isinstance(base, tuple) and base[0] == "MMap":
                terms += [a.term[0], a.term[1]]
            elif is_ref(base) and REG.get(base[1]).kind in ("dict",):
                terms += [I.dom_of(st, a), I.vals_of(st, a)]
            elif is_ref(base) and REG.get(base[1]).kind in ("set",):
                terms += [I.dom_of(st, a)]
            else:
                terms.append(a.term)
        f = z3.Function("uf_" + fname, *([t.sort() for t in terms] + [sort_of(rty)]))
        return Val(rty, f(*terms))
    if name == "dec":
        from . import builtins_model
        return mkreal(builtins_model.real_of_str(args[0].term))
    if name == "strp":
        from . import builtins_model
        return Val("DT", builtins_model.dt_of_str(args[0].term))
    if name == "wsum":
        lst, b, n = args
        items = I.list_items(st, lst)
        return mkreal(prelude.wsum_fn(items.sort())(items, b.term, n.term))
    if name == "stages_in_order":
        from . import asyncio_model
        return mkbool(asyncio_model.stages_in_order(I, st, node.args[0].value, args[1], args[2:]))
    if name == "log_factory_restored":
        from . import asyncio_model
        return mkbool(asyncio_model.log_factory_is_entry(I, st))
    if name == "INF":
        return mkreal(INF)
    if name == "null":
        return Val(("Opt", "Any"), NULL, TRUE)
    if name == "TRUE":
        return mkbool(True)
    if name == "FALSE":
        return mkbool(False)
    if name == "distinct":
        return mkbool(z3.Distinct(*[a.term for a in args]) if len(args) > 1 else TRUE)
    if name == "mmap_empty":
        kt = REG.parse(ast.unparse(node.args[0]))
        vt = REG.parse(ast.unparse(node.args[1]))
        return Val(("MMap", kt, vt), (z3.K(sort_of(kt), FALSE), z3.K(sort_of(kt), default_of(vt))))
    if name == "mmap_put":
        m, k, v = args
        base = m.ty
        return Val(base, (z3.Store(m.term[0], k.term, True), z3.Store(m.term[1], k.term, I.coerce(st, v, base[2]).term)))
    if name == "mmap_add":
        # pointwise m + d1 + d2 + ... over all keys (d_i dict refs or math maps; missing keys count 0)
        m = args[0]
        base = m.ty
        k = z3.FreshConst(sort_of(base[1]), "k")
        kv = Val(base[1], k)
        tot = z3.Select(m.term[1], k)
        for d in args[1:]:
            sign = 1
            tot = tot + spec_builtin(I, st, "at", [d, kv], {}, node).term
        return Val(base, (z3.K(sort_of(base[1]), TRUE), st.deflam([k], tot)))
    if name == "mmap_sub":
        m = args[0]
        base = m.ty
        k = z3.FreshConst(sort_of(base[1]), "k")
        kv = Val(base[1], k)
        tot = z3.Select(m.term[1], k)
        for d in args[1:]:
            tot = tot - spec_builtin(I, st, "at", [d, kv], {}, node).term
        return Val(base, (z3.K(sort_of(base[1]), TRUE), st.deflam([k], tot)))
    if name == "msum":
        # msum(S, lambda k=Sort: term): finite sum of term(k) over the keys in S
        S = args[0]
        dom = I.dom_of(st, S)
        lam = node.args[1]
        if not isinstance(lam, ast.Lambda):
            raise Unsupported("msum needs a lambda")
        F = _lam_array(I, st, lam)
        return mkreal(prelude.msum(dom, F))
    if name in ("sum_axiom_bound", "sum_axiom_eq", "sum_axiom_update", "sum_axiom_remove", "sum_axiom_insert", "sum_axiom_empty",
                "sum_axiom_add"):
        return mkbool(_sum_axiom(I, st, name, args, node))
    if name == "nonempty":
        m = args[0]
        d = I.dom_of(st, m)
        return mkbool(d != z3.K(d.sort().domain(), FALSE))
    if name == "mkval":
        nm = node.args[0].value
        dt, fields = REG.vals[nm]
        terms = [I.coerce(st, v, fty).term for v, (f, fty) in zip(args[1:], fields)]
        return Val(("Val", nm), dt.constructor(0)(*terms))
    if name == "unchanged_except":
        # unchanged_except(obj, "field1", "field2"): every declared field of obj except the named ones is unchanged
        o = args[0]
        skip = {a.value for a in node.args[1:] if isinstance(a, ast.Constant)}
        return mkbool(unchanged_obj(I, st, o, skip=skip))
    if name == "field_unchanged":
        o = args[0]
        only = {a.value for a in node.args[1:] if isinstance(a, ast.Constant)}
        return mkbool(unchanged_obj(I, st, o, only=only))
    raise Unsupported("spec builtin %s" % name)


def default_of(t):
    s = sort_of(t)
    if s == z3.RealSort():
        return z3.RealVal(0)
    if s == z3.IntSort():
        return z3.IntVal(0)
    if s == z3.BoolSort():
        return FALSE
    if s == RefS:
        return NULL
    return z3.FreshConst(s, "d")


def unchanged_obj(I, st, o, content_only=False, skip=(), only=None):
    """all heap locations of object o are the same now as in the old state"""
    if o.ty == "NoneT":
        return TRUE
    base = strip_opt(o.ty)
    if not is_ref(base):
        return TRUE
    kd = REG.get(base[1])
    keys = I.content_keys(kd) if content_only else I.object_keys(base[1])
    conj = []
    for key, sort in keys:
        attr = key.split("#")[0]
        if attr in skip:
            continue
        if only is not None and attr not in only:
            continue
        cur = st.hget(key, sort)
        if st.old_heap is not None and key in st.old_heap:
            old = st.old_heap[key]
        else:
            old = st.hget0(key, sort)
        if cur is old or cur.eq(old):
            continue
        conj.append(z3.Select(cur, o.term) == z3.Select(old, o.term))
    r = z3.And(*conj) if conj else TRUE
    if not z3.is_false(o.none):
        return z3.Or(o.none, r)
    return r


def _lam_array(I, st, lam):
    """lambda k=Sort: term  ->  array K -> Real defined pointwise (deflam)"""
    from .calls import Frame
    fr = Frame(st.frame.func, st.frame.module, parent=st.frame)
    fr.spec_env = st.frame.spec_env
    a = lam.args.args[0]
    ty = REG.parse(ast.unparse(lam.args.defaults[0]))
    k = z3.FreshConst(sort_of(ty), a.arg)
    fr.vars[a.arg] = Val(ty, k)
    st.frames.append(fr)
    st.bound_stack.append(k)
    st.spec_side.append([])
    try:
        body = I.eval(st, lam.body)
    finally:
        st.frames.pop()
        st.bound_stack.pop()
        facts = st.spec_side.pop()
    from .solve import mentions
    for f in facts:
        if mentions(f, [k]):
            f = z3.ForAll([k], f)
        if st.spec_side:
            st.spec_side[-1].append(f)
        else:
            st.assume(f)
    return st.deflam([k], I.to_real(body))


def _sum_axiom(I, st, name, args, node):
    """instances of the finite-sum axioms (each is a valid formula: AX-SUM-*, proved in lemmas/Axioms.lean)"""
    def arr(i):
        return _lam_array(I, st, node.args[i])

    def dom(i):
        return I.dom_of(st, args[i])
    if name == "sum_axiom_empty":
        F = arr(1)
        return z3.Implies(dom(0) == z3.K(dom(0).sort().domain(), FALSE), prelude.msum(dom(0), F) == 0)
    if name == "sum_axiom_bound":
        # sum_axiom_bound(S, lambda.., k): all terms >= 0 and k in S  =>  0 <= term(k) <= sum
        S, F, k = dom(0), arr(1), args[2].term
        j = z3.FreshConst(k.sort(), "j")
        return z3.Implies(z3.And(z3.ForAll([j], z3.Implies(z3.Select(S, j), z3.Select(F, j) >= 0)), z3.Select(S, k)),
                          z3.And(z3.Select(F, k) <= prelude.msum(S, F), prelude.msum(S, F) >= 0))
    if name == "sum_axiom_eq":
        # sum_axiom_eq(S1, lam1, S2, lam2): same keys, same terms on them  =>  same sum
        S1, F1, S2, F2 = dom(0), arr(1), dom(2), arr(3)
        j = z3.FreshConst(S1.sort().domain(), "j")
        return z3.Implies(z3.ForAll([j], z3.And(z3.Select(S1, j) == z3.Select(S2, j),
                                               z3.Implies(z3.Select(S1, j), z3.Select(F1, j) == z3.Select(F2, j)))),
                          prelude.msum(S1, F1) == prelude.msum(S2, F2))
    if name == "sum_axiom_update":
        # sum_axiom_update(S1, lam1, S2, lam2, k): same keys, terms agree except at k in S  =>  sum2 = sum1 - t1(k) + t2(k)
        S1, F1, S2, F2, k = dom(0), arr(1), dom(2), arr(3), args[4].term
        j = z3.FreshConst(k.sort(), "j")
        return z3.Implies(z3.And(z3.Select(S1, k),
                                 z3.ForAll([j], z3.And(z3.Select(S1, j) == z3.Select(S2, j),
                                                       z3.Implies(z3.And(z3.Select(S1, j), j != k), z3.Select(F1, j) == z3.Select(F2, j))))),
                          prelude.msum(S2, F2) == prelude.msum(S1, F1) - z3.Select(F1, k) + z3.Select(F2, k))
    if name == "sum_axiom_remove":
        # sum_axiom_remove(S1, lam1, S2, lam2, k): S2 = S1 \ {k}, k in S1, terms agree on S2  =>  sum2 = sum1 - t1(k)
        S1, F1, S2, F2, k = dom(0), arr(1), dom(2), arr(3), args[4].term
        j = z3.FreshConst(k.sort(), "j")
        return z3.Implies(z3.And(z3.Select(S1, k), z3.Not(z3.Select(S2, k)),
                                 z3.ForAll([j], z3.Implies(j != k, z3.And(z3.Select(S1, j) == z3.Select(S2, j),
                                                                          z3.Implies(z3.Select(S1, j), z3.Select(F1, j) == z3.Select(F2, j)))))),
                          prelude.msum(S2, F2) == prelude.msum(S1, F1) - z3.Select(F1, k))
    if name == "sum_axiom_insert":
        S1, F1, S2, F2, k = dom(0), arr(1), dom(2), arr(3), args[4].term
        j = z3.FreshConst(k.sort(), "j")
        return z3.Implies(z3.And(z3.Not(z3.Select(S1, k)), z3.Select(S2, k),
                                 z3.ForAll([j], z3.Implies(j != k, z3.And(z3.Select(S1, j) == z3.Select(S2, j),
                                                                          z3.Implies(z3.Select(S1, j), z3.Select(F1, j) == z3.Select(F2, j)))))),
                          prelude.msum(S2, F2) == prelude.msum(S1, F1) + z3.Select(F2, k))
    raise Unsupported(name)
