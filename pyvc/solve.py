"""Discharging obligations: z3 (python API) in a process pool, cvc5 / z3-new CLI for `unknown`."""
import os
import subprocess
import tempfile
import time
import multiprocessing as mp
import z3

from . import prelude

Z3_TIMEOUT_MS = int(os.environ.get("PYVC_Z3_TIMEOUT_MS", "20000"))
CVC5_TIMEOUT_S = int(os.environ.get("PYVC_CVC5_TIMEOUT_S", "30"))
CVC5 = "/usr/bin/cvc5"


def _neg(e):
    """negation of e with universal quantifiers skolemised (fresh constants)"""
    if z3.is_quantifier(e) and e.is_forall():
        vs = [z3.FreshConst(e.var_sort(i), "sk_" + e.var_name(i).split("!")[0]) for i in range(e.num_vars())]
        body = z3.substitute_vars(e.body(), *reversed(vs))
        return _neg(body)
    if z3.is_app(e):
        k = e.decl().kind()
        if k == z3.Z3_OP_AND:
            return z3.Or(*[_neg(c) for c in e.children()])
        if k == z3.Z3_OP_OR:
            return z3.And(*[_neg(c) for c in e.children()])
        if k == z3.Z3_OP_IMPLIES:
            return z3.And(_pos(e.arg(0)), _neg(e.arg(1)))
        if k == z3.Z3_OP_NOT:
            return _pos(e.arg(0))
    return z3.Not(e)


def _pos(e):
    if z3.is_quantifier(e) and e.is_exists():
        vs = [z3.FreshConst(e.var_sort(i), "sk_" + e.var_name(i).split("!")[0]) for i in range(e.num_vars())]
        return _pos(z3.substitute_vars(e.body(), *reversed(vs)))
    if z3.is_app(e):
        k = e.decl().kind()
        if k == z3.Z3_OP_AND:
            return z3.And(*[_pos(c) for c in e.children()])
        if k == z3.Z3_OP_OR:
            return z3.Or(*[_pos(c) for c in e.children()])
        if k == z3.Z3_OP_NOT:
            return _neg(e.arg(0))
        if k == z3.Z3_OP_IMPLIES:
            return z3.Or(_neg(e.arg(0)), _pos(e.arg(1)))
    return e


def mentions(f, consts):
    ids = {c.get_id() for c in consts}
    stack = [f]
    seen = set()
    while stack:
        t = stack.pop()
        i = t.get_id()
        if i in ids:
            return True
        if i in seen:
            continue
        seen.add(i)
        if z3.is_quantifier(t):
            stack.append(t.body())
        elif z3.is_app(t):
            stack.extend(t.children())
    return False


def has_exists_or_forall(e):
    stack = [e]
    seen = set()
    while stack:
        t = stack.pop()
        if z3.is_quantifier(t):
            return True
        i = t.get_id()
        if i in seen:
            continue
        seen.add(i)
        if z3.is_app(t):
            stack.extend(t.children())
    return False


def _flatten_and(e, out):
    if z3.is_app(e) and e.decl().kind() == z3.Z3_OP_AND:
        for c in e.children():
            _flatten_and(c, out)
    else:
        out.append(e)


def _ground_consts(fs):
    """ground terms (no bound variables) of uninterpreted sorts, by sort name: constants and compound terms such as
    H_f[x] -- the instantiation set for universally quantified hypotheses (E-matching by hand)"""
    out = {}
    seen = {}

    def visit(t):
        """returns True iff t is ground"""
        i = t.get_id()
        if i in seen:
            return seen[i]
        if z3.is_var(t):
            seen[i] = False
            return False
        if z3.is_quantifier(t):
            visit(t.body())
            seen[i] = False
            return False
        g = True
        if z3.is_app(t):
            for c in t.children():
                if not visit(c):
                    g = False
        seen[i] = g
        if z3.is_app(t):
            # relevant instantiation terms (E-matching by hand): ground terms used as the *index* of a select, plus
            # uninterpreted constants (skolems, parameters)
            if t.decl().kind() == z3.Z3_OP_SELECT:
                ix = t.arg(1)
                if seen.get(ix.get_id()) and ix.sort().kind() == z3.Z3_UNINTERPRETED_SORT:
                    out.setdefault(ix.sort().name(), {})[ix.get_id()] = ix
            if g and t.num_args() == 0 and t.decl().kind() == z3.Z3_OP_UNINTERPRETED and t.sort().kind() == z3.Z3_UNINTERPRETED_SORT:
                out.setdefault(t.sort().name(), {})[i] = t
            # Real-valued field reads H_f[x] (x of an uninterpreted sort): the instantiation set for the few hypotheses
            # quantified over a real bound (e.g. "for every price bound L ...")
            if g and t.sort() == z3.RealSort() and t.decl().kind() == z3.Z3_OP_SELECT and z3.is_const(t.arg(0)) \
                    and t.arg(1).sort().kind() == z3.Z3_UNINTERPRETED_SORT and len(out.get("$Real", {})) < 16:
                out.setdefault("$Real", {})[i] = t
        return g

    import sys
    sys.setrecursionlimit(max(10000, sys.getrecursionlimit()))
    for f in fs:
        visit(f)
    return out


MAX_INST = 6000


def instantiate_quantifiers(fs):
    """ground version of the hypotheses: every universal quantifier in positive position is replaced by the conjunction
    of its instances at the relevant ground terms (uninterpreted sorts), or dropped (Int/Real-indexed ones).  This only
    weakens the hypotheses, so `unsat` is sound; `sat` is a *candidate* counter-model.  Returns (formulas, complete)."""
    import itertools
    nnf = [_pos(f) for f in fs]
    consts = _ground_consts(nnf)
    state = {"complete": True, "budget": MAX_INST}

    def inst(e, depth=0):
        if z3.is_quantifier(e):
            if e.is_forall():
                sorts = [e.var_sort(i) for i in range(e.num_vars())]
                if all(s.kind() == z3.Z3_UNINTERPRETED_SORT or s == z3.RealSort() for s in sorts) and sum(1 for s in sorts if s == z3.RealSort()) <= 1:
                    pools = [list(consts.get("$Real" if s == z3.RealSort() else s.name(), {}).values()) for s in sorts]
                    n = 1
                    for p in pools:
                        n *= max(1, len(p))
                    if all(pools) and n <= state["budget"] and depth < 3:
                        state["budget"] -= n
                        out = []
                        for tup in itertools.product(*pools):
                            out.append(inst(_pos(z3.substitute_vars(e.body(), *reversed(tup))), depth + 1))
                        return z3.And(*out) if out else z3.BoolVal(True)
                state["complete"] = False
                return z3.BoolVal(True)          # dropped hypothesis
            # existential left after skolemisation (nested): keep (z3 skolemises)
            return e
        if z3.is_app(e):
            k = e.decl().kind()
            if k == z3.Z3_OP_AND:
                return z3.And(*[inst(c, depth) for c in e.children()])
            if k == z3.Z3_OP_OR:
                return z3.Or(*[inst(c, depth) for c in e.children()])
        return e

    out = []
    for f in nnf:
        g = inst(f)
        sub = []
        _flatten_and(g, sub)
        out.extend(x for x in sub if not z3.is_true(x))
    return out, state["complete"]


def _all_formulas(ob, str_axioms):
    fs = list(ob.hyps) + [_neg(ob.goal)]
    extra = prelude.instantiate(fs)
    return fs + list(str_axioms) + extra


def build_full(ob, str_axioms):
    """SMT-LIB2 text of  hyps /\\ axioms /\\ not goal  (unsat == obligation holds)"""
    s = z3.Solver()
    for f in _all_formulas(ob, str_axioms):
        s.add(f)
    return s.to_smt2()


def _mentions_decl(e, prefixes):
    stack = [e]
    seen = set()
    while stack:
        t = stack.pop()
        i = t.get_id()
        if i in seen:
            continue
        seen.add(i)
        if z3.is_quantifier(t):
            stack.append(t.body())
        elif z3.is_app(t):
            nm = t.decl().name()
            if any(nm.startswith(p) for p in prefixes):
                return True
            stack.extend(t.children())
    return False


def slice_obligation(ob):
    """a weaker obligation (sound for unsat): hypotheses about finite sums are dropped when the goal does not mention one;
    hypotheses about rounding are dropped when the goal mentions neither rounding nor arithmetic-free ... (kept simple)"""
    from .state import Obligation
    if _mentions_decl(ob.goal, ("msum_", "lamf")):
        return None
    hyps = [h for h in ob.hyps if not _mentions_decl(h, ("msum_", "lamf"))]
    if len(hyps) == len(ob.hyps):
        return None
    return Obligation(ob.name, hyps, ob.goal, ob.meta)


def rewrite_ref_equalities(fs):
    """replace `big` by `small` for every top-level ground equation big == small between uninterpreted-sort terms
    (e.g. self._orders._items[order._id] == order): the hand-instantiated axioms match terms syntactically"""
    subs = []
    for f in fs:
        if z3.is_app(f) and f.decl().kind() == z3.Z3_OP_EQ:
            a, b = f.arg(0), f.arg(1)
            if a.sort().kind() == z3.Z3_UNINTERPRETED_SORT and not has_exists_or_forall(f):
                la, lb = len(a.sexpr()), len(b.sexpr())
                if la == lb:
                    continue
                big, small = (a, b) if la > lb else (b, a)
                if z3.is_app(big) and big.num_args() > 0:
                    subs.append((big, small))
    if not subs:
        return fs
    subs.sort(key=lambda p: -len(p[0].sexpr()))
    out = []
    for f in fs:
        g = f
        for _ in range(2):
            g2 = z3.substitute(g, *subs)
            if g2.eq(g):
                break
            g = g2
        out.append(g)
    return out


def build_inst(ob, str_axioms, lite=False):
    """the same query with the universal hypotheses over uninterpreted sorts replaced by ground instances
    (sound for unsat; sat is a *candidate* counter-model).  Returns (smt2, complete).
    lite: without the rounding / grid axiom instances (still sound for unsat)."""
    if lite:
        fs = list(ob.hyps) + [_neg(ob.goal)]
        allf = fs + list(str_axioms) + prelude.instantiate(fs, lite=True)
    else:
        allf = _all_formulas(ob, str_axioms)
    qf_fs, complete = instantiate_quantifiers(allf)
    qf_fs = rewrite_ref_equalities(qf_fs)
    extra2 = prelude.instantiate(qf_fs, lite=lite)
    # the prelude instances (sum axioms) skolemise new constants: instantiate the hypotheses once more over the larger pool
    if any(has_exists_or_forall(e) for e in extra2):
        qf_fs, complete = instantiate_quantifiers(allf + extra2)
        qf_fs = rewrite_ref_equalities(qf_fs)
        extra2 = prelude.instantiate(qf_fs, lite=lite)
    s2 = z3.Solver()
    for f in qf_fs + extra2:
        s2.add(f)
    return s2.to_smt2(), complete


def build_query(ob, str_axioms):
    full = build_full(ob, str_axioms)
    inst, complete = build_inst(ob, str_axioms)
    return (full, inst, complete)


def _solve_api(fs, timeout_ms):
    """solve a list of formulas with the in-process API (no SMT-LIB round trip)"""
    s = z3.Solver()
    s.set("timeout", timeout_ms)
    for f in fs:
        s.add(f)
    t0 = time.time()
    r = s.check()
    dt = time.time() - t0
    if r == z3.unsat:
        return ("unsat", dt, None), s
    if r == z3.sat:
        m = s.model()
        vals = {}
        for d in m.decls():
            try:
                vals[d.name()] = str(m[d])[:2000]
            except Exception:
                pass
        return ("sat", dt, vals), s
    return ("unknown", dt, s.reason_unknown()), s


class _Lazy:
    def __init__(self, fn):
        self.fn = fn
        self.v = None

    def get(self):
        if self.v is None:
            self.v = self.fn()
        return self.v


def decide(ob, str_axioms, timeout_ms=20000, use_cvc5=True, name=None, want_smt2=False):
    """-> (name, status, backend, seconds, model, tried, smt2_full)"""
    name = name or ob.name
    tried = []
    # cheapest attempt first: all hypotheses, but without the rounding / grid axiom instances (most obligations are
    # structural and do not need them)
    fs0 = list(ob.hyps) + [_neg(ob.goal)]
    lite_f = fs0 + list(str_axioms) + prelude.instantiate(fs0, lite=True)
    rl0, solver_l = _solve_api(lite_f, min(3000, timeout_ms))
    if rl0[0] == "unsat":
        tried.append(("z3", "unsat", rl0[1]))
        return (name, "unsat", "z3", rl0[1], None, tried, solver_l.to_smt2() if want_smt2 else "")
    allf = _all_formulas(ob, str_axioms)
    r0, solver0 = _solve_api(allf, min(4000, timeout_ms))
    if r0[0] == "unsat":
        tried.append(("z3", "unsat", r0[1]))
        return (name, "unsat", "z3", r0[1], None, tried, solver0.to_smt2() if want_smt2 else "")
    full = solver0.to_smt2()
    r = r0
    tried.append(("z3", r[0], r[1] if isinstance(r[1], float) else 0.0))
    if r[0] == "unsat":
        return (name, "unsat", "z3", r[1], None, tried, full)
    # NB: a `sat` of the full query is not final -- prelude axioms are instantiated per ground term, and terms under a
    # quantifier only become ground in the instantiated query below.
    full_sat = r if r[0] == "sat" else None
    sl = slice_obligation(ob)
    if sl is not None:
        sq, _c = build_inst(sl, str_axioms)
        if len(sq) < 25000000:
            rs = _solve_z3(sq, min(timeout_ms, 20000))
            tried.append(("z3-inst-sliced", rs[0], rs[1] if isinstance(rs[1], float) else 0.0))
            if rs[0] == "unsat":
                return (name, "unsat", "z3-inst", rs[1], None, tried, full)
    # small instantiated query first: no rounding / grid axioms (enough for most structural obligations)
    lite, _c = build_inst(ob, str_axioms, lite=True)
    if len(lite) < 25000000:
        rl = _solve_z3(lite, min(timeout_ms, 15000))
        tried.append(("z3-inst-lite", rl[0], rl[1] if isinstance(rl[1], float) else 0.0))
        if rl[0] == "unsat":
            return (name, "unsat", "z3-inst", rl[1], None, tried, full)
    inst, complete = build_inst(ob, str_axioms)
    rq = ("skipped", 0.0, None)
    if len(inst) < 25000000:
        rq = _solve_z3(inst, timeout_ms)
        tried.append(("z3-inst", rq[0], rq[1] if isinstance(rq[1], float) else 0.0))
        if rq[0] == "unsat":
            return (name, "unsat", "z3-inst", rq[1], None, tried, full)
    if rq[0] == "sat" and full_sat is not None:
        return (name, "sat", "z3+z3-inst", rq[1], rq[2], tried, full)
    if full_sat is None:
        r = _solve_z3(full, timeout_ms)
        tried.append(("z3", r[0], r[1] if isinstance(r[1], float) else 0.0))
        if r[0] == "unsat":
            return (name, "unsat", "z3", r[1], None, tried, full)
    if use_cvc5 and rq[0] != "sat":
        r2 = _solve_cvc5(full, CVC5_TIMEOUT_S)
        tried.append(("cvc5", r2[0], r2[1]))
        if r2[0] == "unsat":
            return (name, "unsat", "cvc5", r2[1], None, tried, full)
    if rq[0] == "unknown":
        # z3 is sensitive to the random seed on the large instantiated queries: two more attempts
        for seed in (7, 23):
            rq2 = _solve_z3(inst, timeout_ms, seed=seed)
            tried.append(("z3-inst(seed %d)" % seed, rq2[0], rq2[1] if isinstance(rq2[1], float) else 0.0))
            if rq2[0] == "unsat":
                return (name, "unsat", "z3-inst", rq2[1], None, tried, full)
            if rq2[0] == "sat":
                rq = rq2
                break
    if rq[0] == "sat":
        # instantiated query has a model, the full query is undecided: a candidate counter-model
        return (name, "sat", "z3-inst" if complete else "z3-inst(candidate)", rq[1], rq[2], tried, full)
    return (name, "unknown", "z3", r[1] if isinstance(r[1], float) else 0.0, r[2] if r[0] == "unknown" else "full query sat, instantiated query undecided", tried, full)


def hyps_refutable(ob, str_axioms, budget_ms=10000, deep=False):
    """vacuity probe: are the hypotheses of the obligation contradictory?  (sound only in the `True` direction).
    quick: the quantified query with a short budget (finds blatant contradictions such as alloc[x] and not alloc[x]);
    deep (thorough tier): also the ground-instantiated query"""
    from .state import Obligation
    probe = Obligation(ob.name + "#feasible", ob.hyps, z3.BoolVal(False), ob.meta)
    fs0 = list(probe.hyps)
    r, _ = _solve_api(fs0 + list(str_axioms) + prelude.instantiate(fs0, lite=True), 2000)
    if r[0] == "unsat":
        return True
    if r[0] == "sat" or not deep:
        return False
    lite, _c = build_inst(probe, str_axioms, lite=False)     # with the rounding / grid axiom instances
    if len(lite) < 25000000:
        rl = _solve_z3(lite, budget_ms)
        if rl[0] == "unsat":
            return True
    return False


def _solve_z3(smt2, timeout_ms, seed=0):
    ctx = z3.Context()
    s = z3.Solver(ctx=ctx)
    s.set("timeout", timeout_ms)
    if seed:
        s.set("random_seed", seed)
    try:
        s.from_string(smt2)
    except z3.Z3Exception as e:
        return ("error", "parse: %s" % e, None)
    t0 = time.time()
    r = s.check()
    dt = time.time() - t0
    if r == z3.unsat:
        return ("unsat", dt, None)
    if r == z3.sat:
        m = s.model()
        vals = {}
        for d in m.decls():
            try:
                if d.arity() == 0:
                    vals[d.name()] = str(m[d])
                else:
                    vals[d.name()] = str(m[d])[:2000]
            except Exception:
                pass
        return ("sat", dt, vals)
    return ("unknown", dt, s.reason_unknown())


def _solve_cvc5(smt2, timeout_s):
    if not os.path.exists(CVC5):
        return ("unknown", 0.0, "cvc5 missing")
    with tempfile.NamedTemporaryFile("w", suffix=".smt2", delete=False, dir=os.environ.get("TMPDIR", "/tmp")) as f:
        f.write("(set-logic ALL)\n")
        f.write(smt2)
        path = f.name
    t0 = time.time()
    try:
        p = subprocess.run([CVC5, "--tlimit=%d" % (timeout_s * 1000), "--nl-ext-tplanes", path], capture_output=True,
                           text=True, timeout=timeout_s + 5)
        out = p.stdout.strip().splitlines()
        ans = out[0].strip() if out else "unknown"
    except subprocess.TimeoutExpired:
        ans = "unknown"
    finally:
        try:
            os.unlink(path)
        except OSError:
            pass
    dt = time.time() - t0
    if ans in ("unsat", "sat"):
        return (ans, dt, None)
    return ("unknown", dt, ans)


def solve_one(job):
    name, query, timeout_ms, use_cvc5 = job
    full, qf, complete = query
    tried = []
    rq = _solve_z3(qf, min(timeout_ms, 10000))
    tried.append(("z3-inst", rq[0], rq[1] if isinstance(rq[1], float) else 0.0))
    if rq[0] == "unsat":
        return (name, "unsat", "z3-inst", rq[1], None, tried)
    smt2 = full
    r = _solve_z3(smt2, timeout_ms)
    backend = "z3"
    tried.append(("z3", r[0], r[1] if isinstance(r[1], float) else 0.0))
    if r[0] == "unknown" and rq[0] == "sat":
        # the instantiated query has a model and the full query is undecided: a candidate counter-model
        if use_cvc5:
            r2 = _solve_cvc5(smt2, CVC5_TIMEOUT_S)
            tried.append(("cvc5", r2[0], r2[1]))
            if r2[0] == "unsat":
                return (name, "unsat", "cvc5", r2[1], None, tried)
        return (name, "sat", "z3-inst" if complete else "z3-inst(candidate)", rq[1], rq[2], tried)
    if r[0] == "unknown" and use_cvc5:
        r2 = _solve_cvc5(smt2, CVC5_TIMEOUT_S)
        tried.append(("cvc5", r2[0], r2[1]))
        if r2[0] == "unsat":
            return (name, "unsat", "cvc5", r2[1], None, tried)
        if r2[0] == "sat":
            # cvc5 says sat: no model extraction here; report as sat without model
            return (name, "sat", "cvc5", r2[1], None, tried)
    return (name, r[0], backend, r[1] if isinstance(r[1], float) else 0.0, r[2], tried)


def discharge(jobs, procs=None):
    """jobs: list of (name, smt2, timeout_ms, use_cvc5) -> dict name -> result tuple"""
    procs = procs or min(16, os.cpu_count() or 4)
    out = {}
    if not jobs:
        return out
    if procs <= 1 or len(jobs) == 1:
        for j in jobs:
            r = solve_one(j)
            out[r[0]] = r
        return out
    ctx = mp.get_context("fork")
    with ctx.Pool(processes=procs) as pool:
        for r in pool.imap_unordered(solve_one, jobs, chunksize=1):
            out[r[0]] = r
    return out
