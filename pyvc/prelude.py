"""Prelude: arithmetic helpers, the uninterpreted model of Decimal.quantize and its ground-instantiated axioms.

Every axiom schema used here has a proof id (see lemmas/prelude_proofs.py): the schema is proved for the concrete
definition unit(p)=10^-p, grid(x,p) <=> x*10^p in Z, q_* = floor/ceil/round-half-even on that grid, for p=0..8 by z3
and for symbolic scale by Lean (lemmas/Axioms.lean).
"""
import z3
from .vtypes import StrS, RefS, IdS

PY_BUILTINS = {
    "abs", "max", "min", "len", "set", "dict", "list", "tuple", "isinstance", "int", "str", "float", "bool", "sum",
    "sorted", "filter", "map", "enumerate", "any", "all", "round", "type", "getattr", "range", "zip", "print", "repr",
    "iter", "next", "hasattr", "super", "format", "id", "callable", "reversed", "open", "bytes", "issubclass", "frozenset",
}

SPEC_BUILTINS = {
    "old", "forall", "exists", "implies", "iff", "at", "dom", "has", "fresh", "unchanged", "same_content", "typeis",
    "grid", "unit", "q_down", "q_up", "q_he", "card", "mset_empty", "mset_add", "mset_union", "subset", "ite",
    "allocated", "content_unchanged", "field_unchanged", "is_none", "not_none", "seq_len", "seq_at", "disjoint",
    "mmap_of", "mset_of", "let", "Real", "Int", "TRUE", "FALSE", "INF", "null", "mset_remove", "same_object",
    "is_open_state", "lemma", "select", "store", "trunc0", "cls_of", "idiv", "imod", "to_real", "to_int", "floor",
    "inflt", "clock", "at_suspend", "ENTRY", "mkval", "val_at", "mmap_add", "mmap_sub", "nonempty", "msum", "sum_axiom_bound", "sum_axiom_eq", "sum_axiom_update", "sum_axiom_remove", "sum_axiom_insert", "sum_axiom_empty", "mset_single", "mmap_empty", "mmap_put", "pure_call", "unchanged_except", "xor", "distinct", "log_factory_restored", "stages_in_order", "ifdef", "wsum", "dec", "strp", "ufun", "rank", "gathered_count", "trade_when", "trade_price", "trade_amount",
}

unit = z3.Function("unit", z3.IntSort(), z3.RealSort())
grid = z3.Function("grid", z3.RealSort(), z3.IntSort(), z3.BoolSort())
q_down = z3.Function("q_down", z3.RealSort(), z3.IntSort(), z3.RealSort())
q_up = z3.Function("q_up", z3.RealSort(), z3.IntSort(), z3.RealSort())
q_he = z3.Function("q_he", z3.RealSort(), z3.IntSort(), z3.RealSort())
card_str = z3.Function("card_str", z3.ArraySort(StrS, z3.BoolSort()), z3.IntSort())
card_ref = z3.Function("card_ref", z3.ArraySort(RefS, z3.BoolSort()), z3.IntSort())
card_id = z3.Function("card_id", z3.ArraySort(IdS, z3.BoolSort()), z3.IntSort())
str_concat = z3.Function("str_concat", StrS, StrS, StrS)
str_of_real = z3.Function("str_of_real", z3.RealSort(), StrS)
str_of_int = z3.Function("str_of_int", z3.IntSort(), StrS)

_MSUM = {}


def msum(dom, F):
    """SUM over the keys in dom of F[k]: one uninterpreted function per key sort; all reasoning through the sum axioms"""
    ks = dom.sort().domain()
    f = _MSUM.get(ks.name())
    if f is None:
        f = z3.Function("msum_" + ks.name(), z3.ArraySort(ks, z3.BoolSort()), z3.ArraySort(ks, z3.RealSort()), z3.RealSort())
        _MSUM[ks.name()] = f
    return f(dom, F)


owner_obj = z3.Function("owner_obj", RefS, RefS)
owner_fld = z3.Function("owner_fld", RefS, z3.IntSort())
owner_key = z3.Function("owner_key", RefS, IdS)
_FIELD_IDS = {}


def field_id(attr):
    if attr not in _FIELD_IDS:
        _FIELD_IDS[attr] = len(_FIELD_IDS) + 1
    return z3.IntVal(_FIELD_IDS[attr])


def _sym(f):
    # ROUND_DOWN / ROUND_UP / ROUND_HALF_EVEN are odd functions: q(-x) = -q(x).  Normalising through |x| lets the
    # solver identify q(-a) with -q(a) without an extra axiom.
    def g(x, p):
        return z3.If(x >= 0, f(x, p), -f(-x, p))
    return g


QFUNS = {"q_down": _sym(q_down), "q_up": _sym(q_up), "q_he": _sym(q_he)}


def floordiv(x, y):
    return z3.If(y > 0, x / y, (-x) / (-y))


def pymod(x, y):
    return x - y * floordiv(x, y)


def zabs(x):
    return z3.If(x >= 0, x, -x)


def zmax(x, y):
    return z3.If(x >= y, x, y)


def zmin(x, y):
    return z3.If(x <= y, x, y)


_WSUM = {}


def wsum_fn(items_sort):
    f = _WSUM.get(str(items_sort))
    if f is None:
        f = _WSUM[str(items_sort)] = z3.Function("wsum", items_sort, z3.IntSort(), z3.IntSort(), z3.RealSort())
    return f


def wsum_axioms(t):
    """AX-WSUM (recursive definition, instantiated at the occurring terms):
       wsum(I, b, n) = 0 for n <= 0;  wsum(I, b, n) = wsum(I, b, n-1) + (amount(I[n-1]) if when(I[n-1]) >= b else 0)"""
    I, b, n = t.arg(0), t.arg(1), t.arg(2)
    f = t.decl()
    dt = I.sort().range()
    when = dt.accessor(0, 0)
    amount = dt.accessor(0, 2)
    e = z3.Select(I, n - 1)
    return [z3.Implies(n <= 0, t == 0),
            z3.Implies(n > 0, t == f(I, b, n - 1) + z3.If(when(e) >= b, amount(e), z3.RealVal(0)))]


def card(dom):
    s = dom.sort().domain()
    if s == StrS:
        return card_str(dom)
    if s == RefS:
        return card_ref(dom)
    if s == IdS:
        return card_id(dom)
    raise TypeError("card on %s" % s)


# ---------------------------------------------------------------------------------------
# ground instantiation of the quantize / grid axioms
# ---------------------------------------------------------------------------------------
_APPS_CACHE = {}


def _collect(e, seen, apps):
    """memoised per top-level formula (hypotheses are shared by many obligations of the same function)"""
    eid = e.get_id()
    hit = _APPS_CACHE.get(eid)
    if hit is None:
        local = {}
        _collect_raw(e, set(), local)
        if len(_APPS_CACHE) > 200000:
            _APPS_CACHE.clear()
        _APPS_CACHE[eid] = (e, local)
        hit = (e, local)
    for nm, d in hit[1].items():
        apps.setdefault(nm, {}).update(d)


def _collect_raw(e, seen, apps):
    stack = [e]
    while stack:
        t = stack.pop()
        tid = t.get_id()
        if tid in seen:
            continue
        seen.add(tid)
        if z3.is_quantifier(t):
            stack.append(t.body())
            continue
        if z3.is_app(t):
            d = t.decl()
            nm = d.name()
            if (nm in ("q_down", "q_up", "q_he", "grid", "unit", "card_str", "card_ref", "card_id", "wsum") or nm.startswith("msum_")) and d.arity() > 0:
                if nm.startswith("msum_"):
                    nm = "msum"
                # skip applications that mention bound variables
                if not _has_var(t):
                    apps.setdefault(nm, {})[tid] = t
            for c in t.children():
                stack.append(c)


def _has_var(t):
    stack = [t]
    seen = set()
    while stack:
        x = stack.pop()
        if x.get_id() in seen:
            continue
        seen.add(x.get_id())
        if z3.is_var(x):
            return True
        if z3.is_app(x):
            stack.extend(x.children())
        elif z3.is_quantifier(x):
            return True
    return False


def q_axioms(t):
    """axiom instances for one term t = q_m(x, p).  Proof ids: AX-Q-GRID, AX-Q-SIGN, AX-Q-BOUND-<m>, AX-Q-FIX."""
    nm = t.decl().name()
    x, p = t.arg(0), t.arg(1)
    u = unit(p)
    out = [grid(t, p), z3.Implies(grid(x, p), t == x), u > 0]
    out.append(z3.Implies(x >= 0, t >= 0))
    out.append(z3.Implies(x <= 0, t <= 0))
    if nm == "q_down":
        out.append(z3.Implies(x >= 0, z3.And(t <= x, x - u < t)))
        out.append(z3.Implies(x <= 0, z3.And(t >= x, x + u > t)))
    elif nm == "q_up":
        out.append(z3.Implies(x >= 0, z3.And(t >= x, x + u > t)))
        out.append(z3.Implies(x <= 0, z3.And(t <= x, x - u < t)))
    else:
        out.append(z3.And(t - x <= u / 2, x - t <= u / 2))
    return out


def unit_axioms(t):
    p = t.arg(0)
    return [t > 0, z3.Implies(p >= 0, t <= 1), grid(t, p)]


def grid_axioms(atoms, depth_terms):
    """closure + uniqueness instances for the grid atoms present.  Proof ids: AX-GRID-ZERO/NEG/ADD/SUB/UNIQ/MUL-INT."""
    out = []
    byp = {}
    for a in atoms:
        byp.setdefault(a.arg(1).get_id(), (a.arg(1), []))[1].append(a.arg(0))
    for pid, (p, xs) in byp.items():
        u = unit(p)
        out.append(grid(z3.RealVal(0), p))
        out.append(u > 0)
        uniq = {}
        for x in xs:
            uniq[x.get_id()] = x
        xs = list(uniq.values())
        for x in xs:
            # structural closure: if x is a sum/difference/negation/ite, relate to its parts
            if z3.is_app(x):
                k = x.decl().kind()
                ch = x.children()
                if k == z3.Z3_OP_ADD:
                    out.append(z3.Implies(z3.And(*[grid(c, p) for c in ch]), grid(x, p)))
                    if len(ch) == 2:
                        out.append(z3.Implies(z3.And(grid(x, p), grid(ch[0], p)), grid(ch[1], p)))
                        out.append(z3.Implies(z3.And(grid(x, p), grid(ch[1], p)), grid(ch[0], p)))
                elif k == z3.Z3_OP_SUB:
                    out.append(z3.Implies(z3.And(*[grid(c, p) for c in ch]), grid(x, p)))
                    if len(ch) == 2:
                        out.append(z3.Implies(z3.And(grid(x, p), grid(ch[0], p)), grid(ch[1], p)))
                        out.append(z3.Implies(z3.And(grid(x, p), grid(ch[1], p)), grid(ch[0], p)))
                elif k == z3.Z3_OP_UMINUS:
                    out.append(grid(ch[0], p) == grid(x, p))
                elif k == z3.Z3_OP_ITE:
                    out.append(z3.Implies(z3.And(grid(ch[1], p), grid(ch[2], p)), grid(x, p)))
                    out.append(z3.Implies(grid(x, p), z3.And(z3.Implies(ch[0], grid(ch[1], p)), z3.Implies(z3.Not(ch[0]), grid(ch[2], p)))))
                elif k == z3.Z3_OP_MUL and len(ch) == 2:
                    for a, b in ((ch[0], ch[1]), (ch[1], ch[0])):
                        if z3.is_rational_value(a) and a.denominator_as_long() == 1:
                            out.append(z3.Implies(grid(b, p), grid(x, p)))
                            if a.numerator_as_long() in (1, -1):
                                out.append(grid(b, p) == grid(x, p))
        # uniqueness: two grid points closer than one unit are equal; a non-zero grid point is at least one unit
        for i in range(len(xs)):
            out.append(z3.Implies(z3.And(grid(xs[i], p), xs[i] > 0), xs[i] >= u))
            out.append(z3.Implies(z3.And(grid(xs[i], p), xs[i] < 0), xs[i] <= -u))
        # uniqueness is quadratic: with many atoms only pair the rounded terms themselves with every atom
        if len(xs) <= 10:
            pairs = [(xs[i], xs[j]) for i in range(len(xs)) for j in range(i + 1, len(xs))]
        else:
            qs = [x for x in xs if z3.is_app(x) and x.decl().name() in ("q_down", "q_up", "q_he")][:8]
            pairs = [(qs[i], qs[j]) for i in range(len(qs)) for j in range(i + 1, len(qs))]
        for a, b in pairs:
            out.append(z3.Implies(z3.And(grid(a, p), grid(b, p), a - b < u, b - a < u), a == b))
    return out


def _addends(t, sign, out):
    """flatten a real term into +-1 * atom addends; returns False if it is not such a unit-coefficient combination"""
    if z3.is_rational_value(t):
        return t.numerator_as_long() == 0
    if z3.is_app(t):
        k = t.decl().kind()
        if k == z3.Z3_OP_ADD:
            return all(_addends(c, sign, out) for c in t.children())
        if k == z3.Z3_OP_SUB:
            ch = t.children()
            return _addends(ch[0], sign, out) and all(_addends(c, -sign, out) for c in ch[1:])
        if k == z3.Z3_OP_UMINUS:
            return _addends(t.arg(0), -sign, out)
        if k == z3.Z3_OP_MUL and t.num_args() == 2:
            for a, b in ((t.arg(0), t.arg(1)), (t.arg(1), t.arg(0))):
                if z3.is_rational_value(a) and a.denominator_as_long() == 1 and a.numerator_as_long() in (1, -1):
                    return _addends(b, sign * a.numerator_as_long(), out)
    out.append(t)
    return True


def linear_grid_axioms(eqs, atoms):
    """AX-GRID-LIN: in an equation  +-t1 +- t2 +- ... = 0  (unit coefficients), if all addends but one are on the grid, so
    is the remaining one (the grid is a group under +).  Forward chaining: an instance is generated only when all but at
    most one addend already occur in a grid atom for that precision; the new atom can enable further equations."""
    lin = []
    for e in eqs:
        lhs, rhs = e
        ts = []
        if not (_addends(lhs, 1, ts) and _addends(rhs, -1, ts)):
            continue
        uniq = {}
        for t in ts:
            uniq[t.get_id()] = t
        ts = list(uniq.values())
        if 2 <= len(ts) <= 4:
            lin.append((ts, None if getattr(e, "asserted", False) else (lhs == rhs)))
    # precisions are often written in several syntactically different but equal ways: eligibility ignores which
    # precision term an atom carries, and an instance is emitted for every distinct precision term (few)
    ps = {}
    have = set()
    for a in atoms.values():
        ps.setdefault(a.arg(1).get_id(), a.arg(1))
        have.add(a.arg(0).get_id())
    plist = list(ps.values())[:6]
    out = []
    done = set()
    for _round in range(4):
        grew = False
        for k, (ts, eqn) in enumerate(lin):
            if k in done:
                continue
            missing = [t for t in ts if t.get_id() not in have]
            if len(missing) <= 1 and len(missing) < len(ts):
                done.add(k)
                for p in plist:
                    for i in range(len(ts)):
                        others = [grid(ts[j], p) for j in range(len(ts)) if j != i]
                        # the equation may occur under a negation / inside a condition: the instance is conditional on it
                        # (an equation that is itself a hypothesis needs no guard)
                        out.append(z3.Implies(z3.And(*(([eqn] if eqn is not None else []) + others)), grid(ts[i], p)))
                    for t in missing:
                        na = grid(t, p)
                        atoms[na.get_id()] = na
                for t in missing:
                    have.add(t.get_id())
                    grew = True
        if not grew:
            break
    return out


_EQ_CACHE = {}


def _real_equalities(fs):
    out = []
    for f in fs:
        fid = f.get_id()
        hit = _EQ_CACHE.get(fid)
        if hit is None:
            hit = (f, _real_equalities_raw([f]))
            if len(_EQ_CACHE) > 200000:
                _EQ_CACHE.clear()
            _EQ_CACHE[fid] = hit
        out.extend(hit[1])
    return out


class _Eq(tuple):
    """(lhs, rhs) of a ground real equation; .asserted: it is a top-level conjunct of a hypothesis (it holds), as opposed
    to occurring under a negation, a disjunction, an implication or inside a condition (it may not hold)"""
    asserted = False


def _real_equalities_raw(fs):
    out = []
    seen = set()
    stack = [(f, True) for f in fs]
    while stack:
        t, top = stack.pop()
        i = t.get_id()
        if (i, top) in seen:
            continue
        seen.add((i, top))
        if z3.is_quantifier(t):
            continue
        if z3.is_app(t):
            if t.decl().kind() == z3.Z3_OP_EQ and t.arg(0).sort() == z3.RealSort() and not _has_var(t):
                e = _Eq((t.arg(0), t.arg(1)))
                e.asserted = top
                out.append(e)
            else:
                if t.sort() == z3.BoolSort():
                    keep = top and t.decl().kind() == z3.Z3_OP_AND
                    stack.extend((c, keep) for c in t.children())
    return out


def apps_all(formulas, extra):
    apps = {}
    seen = set()
    for f in list(formulas) + list(extra):
        _collect(f, seen, apps)
    return apps


def _heap_defs(formulas):
    """defining equations `hp_k == Store(...)` of the SSA heap names"""
    defs = {}
    for f in formulas:
        if z3.is_eq(f) and z3.is_const(f.arg(0)) and f.arg(0).decl().kind() == z3.Z3_OP_UNINTERPRETED and z3.is_store(f.arg(1)):
            defs[f.arg(0).get_id()] = f.arg(1)
    return defs


def _resolve_select(d, defs):
    """Select(hp_k, r) with hp_k == Store(A, r, v)  ->  v   (syntactic; gives up otherwise)"""
    for _ in range(8):
        if z3.is_select(d) and d.arg(0).get_id() in defs:
            st_ = defs[d.arg(0).get_id()]
            if st_.arg(1).eq(d.arg(1)):
                d = st_.arg(2)
                continue
        break
    return d


def card_axioms(t, pairs=(), defs=None):
    """AX-CARD: card >= 0, card = 0 iff empty, and for a set contained in {a, b} (a != b): card = [a in S] + [b in S]"""
    d = t.arg(0)
    s = d.sort().domain()
    w = z3.FreshConst(s, "cw")
    out = [t >= 0, (t == 0) == (d == z3.K(s, z3.BoolVal(False))), z3.Or(t == 0, z3.Select(d, w))]
    # AX-CARD-STORE: adding / removing one element
    ds = z3.simplify(_resolve_select(d, defs or {}))
    if z3.is_store(ds):
        S, x, b = ds.arg(0), ds.arg(1), ds.arg(2)
        cS = card(S)
        out.append(t == z3.If(b, cS + z3.If(z3.Select(S, x), 0, 1), cS - z3.If(z3.Select(S, x), 1, 0)))
    for a, b in pairs:
        if a.sort() != s:
            continue
        k = z3.FreshConst(s, "ck")
        sub = z3.ForAll([k], z3.Implies(z3.Select(d, k), z3.Or(k == a, k == b)))
        out.append(z3.Implies(z3.And(a != b, sub),
                              t == z3.If(z3.Select(d, a), 1, 0) + z3.If(z3.Select(d, b), 1, 0)))
    return out


def _pair_terms(fs):
    """(base_symbol(t), quote_symbol(t)) for every ground application of the Pair accessors"""
    accs = {}
    seen = set()
    stack = list(fs)
    while stack:
        t = stack.pop()
        i = t.get_id()
        if i in seen:
            continue
        seen.add(i)
        if z3.is_quantifier(t):
            stack.append(t.body())
            continue
        if z3.is_app(t):
            nm = t.decl().name()
            if nm in ("base_symbol", "quote_symbol") and t.num_args() == 1 and not _has_var(t):
                accs.setdefault(t.arg(0).get_id(), {})[nm] = t
            stack.extend(t.children())
    out = []
    for d in accs.values():
        if "base_symbol" in d and "quote_symbol" in d:
            out.append((d["base_symbol"], d["quote_symbol"]))
    return out


def instantiate(formulas, rounds=2, lite=False):
    """returns extra ground axiom instances for the prelude symbols occurring in formulas.
    lite=True leaves out the rounding / grid axioms (a weaker but much smaller query, tried first)"""
    extra = []
    seen = set()
    done = set()
    todo = list(formulas)
    pairs = None
    for _ in range(rounds):
        apps = {}
        for f in todo:
            _collect(f, seen, apps)
        new = []
        for nm in (("q_down", "q_up", "q_he") if not lite else ()):
            for tid, t in apps.get(nm, {}).items():
                if ("q", tid) not in done:
                    done.add(("q", tid))
                    new += q_axioms(t)
        for tid, t in (apps.get("unit", {}).items() if not lite else ()):
            if ("u", tid) not in done:
                done.add(("u", tid))
                new += unit_axioms(t)
        for tid, t in apps.get("wsum", {}).items():
            if ("w", tid) not in done:
                done.add(("w", tid))
                new += wsum_axioms(t)
        for nm in ("card_str", "card_ref", "card_id"):
            for tid, t in apps.get(nm, {}).items():
                if ("c", tid) not in done:
                    done.add(("c", tid))
                    if pairs is None:
                        pairs = _pair_terms(formulas)
                        hdefs = _heap_defs(formulas)
                    new += card_axioms(t, pairs, hdefs)
        extra += new
        todo = new
        if not new:
            break
    # AX-SUM-EQ between every two ground sums whose summand arrays are applications with the same arguments (the same
    # sum written in two program states): same keys and same terms on them => same sum
    sums = list(apps_all(formulas, extra).get("msum", {}).values())
    def _args(t):
        F = t.arg(1)
        return tuple(a.get_id() for a in F.children()) if z3.is_app(F) and F.num_args() > 0 else ()
    for i in range(len(sums)):
        for j in range(i + 1, len(sums)):
            a, b = sums[i], sums[j]
            if a.sort() != b.sort() or a.arg(0).sort() != b.arg(0).sort() or _args(a) != _args(b) or len(extra) > 60000:
                continue
            jv = z3.FreshConst(a.arg(0).sort().domain(), "j")
            extra.append(z3.Implies(z3.ForAll([jv], z3.And(z3.Select(a.arg(0), jv) == z3.Select(b.arg(0), jv),
                                                           z3.Implies(z3.Select(a.arg(0), jv), z3.Select(a.arg(1), jv) == z3.Select(b.arg(1), jv)))),
                                    a == b))
    if lite:
        return extra
    # grid closure over all grid atoms seen in formulas + extra: a small fixpoint of
    #   (a) congruence helper: for an equation  t == e  between reals where grid(t, p) is an atom, e becomes an atom too
    #   (b) structural closure (sum / difference / negation / ite / integer multiple) which introduces atoms for sub-terms
    apps = {}
    seen2 = set()
    for f in list(formulas) + extra:
        _collect(f, seen2, apps)
    atoms = {a.get_id(): a for a in apps.get("grid", {}).values()}
    eqs = _real_equalities(list(formulas) + extra)
    g = []
    for _round in range(4):
        n0 = len(atoms)
        byterm = {}
        for a in atoms.values():
            byterm.setdefault(a.arg(0).get_id(), []).append(a.arg(1))
        for lhs, rhs in eqs:
            for x, y in ((lhs, rhs), (rhs, lhs)):
                for p in byterm.get(x.get_id(), []):
                    na = grid(y, p)
                    if na.get_id() not in atoms and len(atoms) < 120:
                        atoms[na.get_id()] = na
        g = grid_axioms(list(atoms.values()), None)
        apps2 = {}
        seen3 = set()
        for f in g:
            _collect(f, seen3, apps2)
        for a in apps2.get("grid", {}).values():
            if a.get_id() not in atoms and len(atoms) < 120:
                atoms[a.get_id()] = a
        if len(atoms) == n0:
            break
    # linear-combination closure over the ground equations (may add atoms), then the structural closure once more
    lin = linear_grid_axioms(eqs, atoms)
    g = grid_axioms(list(atoms.values()), None)
    return extra + g + lin
