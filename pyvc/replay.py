"""Replay of counter-models against the real code (DESIGN section 7).

A replay file always carries the failed obligation, the clause, the source location and hash of the function, the
SMT-LIB query and the solver's model.  If a builder exists for the function the model is turned into real objects and
the real function is run under /venv/bin/python; the VIOLATION line only omits `no-failing-input-found` when that
native run reproduces the violated clause.
"""
import json
import os
import subprocess
import sys

ROOT = os.path.dirname(os.path.dirname(os.path.abspath(__file__)))
VENV_PY = "/venv/bin/python"


def write_replay(path, prop, o, repo):
    fi = repo.functions.get(o.get("func", "").split("@")[0]) if o.get("func") else None
    rec = {
        "property": prop, "obligation": o["name"], "clause": o.get("clause"), "kind": o.get("kind"),
        "function": o.get("func"), "source": fi.loc if fi else None, "function_sha": fi.sha if fi else None,
        "path_decisions": o.get("path"), "solver": o.get("backend"), "solver_answers": o.get("tried"),
        "model": o.get("model"), "smtlib": o.get("smt2"),
        "rerun": "./check %s --replay %s" % (prop, path),
    }
    confirmed = False
    native = None
    builder = os.path.join(ROOT, "builders", (o.get("func") or "none").split("@")[0].replace(".", "_") + ".py")
    if os.path.exists(builder) and o.get("model"):
        try:
            with open(path, "w") as f:
                json.dump(rec, f, indent=1, default=str)
            p = subprocess.run([VENV_PY, builder, path], capture_output=True, text=True, timeout=120,
                               cwd=os.environ.get("PYVC_REPO", "/repo"))
            native = {"stdout": p.stdout[-4000:], "stderr": p.stderr[-2000:], "returncode": p.returncode}
            confirmed = p.returncode == 1 and "REPRODUCED" in p.stdout
        except Exception as e:
            native = {"error": str(e)}
    rec["native_replay"] = native
    rec["reproduced_on_real_code"] = confirmed
    if not confirmed:
        rec["note"] = ("no-failing-input-found: the counter-model was not replayed on the real code (no builder for this "
                       "function, or the model lives in an abstraction gap); the obligation above failed and the solver output is attached")
    with open(path, "w") as f:
        json.dump(rec, f, indent=1, default=str)
    return confirmed


def run_replay(path):
    rec = json.load(open(path))
    print(json.dumps({k: rec.get(k) for k in ("property", "obligation", "clause", "function", "source", "reproduced_on_real_code")}, indent=1))
    builder = os.path.join(ROOT, "builders", (rec.get("function") or "none").split("@")[0].replace(".", "_") + ".py")
    if os.path.exists(builder):
        p = subprocess.run([VENV_PY, builder, path], cwd=os.environ.get("PYVC_REPO", "/repo"))
        return p.returncode
    print("no native builder for this function; model:")
    print(json.dumps(rec.get("model"), indent=1)[:4000])
    return 1
