"""Helpers to state lemmas over contracts: symbolic application of a function's contract to a fresh pre-state."""
import z3
from pyvc.repo import Repo
from pyvc.interp import Interp
from pyvc.contracts import DB
from pyvc.state import State, Frame
from pyvc import calls, specs
from pyvc.vtypes import Val, REG

_CACHE = {}


def interp():
    if "I" not in _CACHE:
        import contracts
        contracts.load_all()
        repo = Repo()
        _CACHE["I"] = Interp(repo, DB)
    return _CACHE["I"]


class Step:
    """the pre/post relation a contract defines: fresh arguments, `requires` assumed, modifies havocked, `ensures` assumed"""

    def __init__(self, qualname, outcome=0, st=None, args=None):
        I = interp()
        self.I = I
        c = DB.get(qualname)
        fi = I.repo.functions[qualname]
        st = st or State(sink=[], worklist=[], trace=[outcome])
        if not st.frames:
            st.frames.append(Frame(None, fi.module))
        self.st = st
        a = fi.node.args
        env = dict(args or {})
        for p in list(a.posonlyargs + a.args + a.kwonlyargs):
            if p.arg in env:
                continue
            ty = calls.param_type(I, st, fi, p, c)
            env[p.arg] = st.fresh_val(ty, p.arg) if ty not in (None, "Any") else Val("Any", st.fresh(z3.DeclareSort("Ref"), p.arg))
        self.args = env
        self.pre_heap = dict(st.heap)
        for cl in c.requires:
            st.assume(specs.eval_clause(I, st, cl, env, fi))
        self.pre = State.__new__(State)
        self.pre_pc_len = len(st.pc)
        self.pre_heap = dict(st.heap)
        self.result = calls.apply_contract(I, st, c, fi, env, None)
        self.hyps = list(st.pc)

    def field(self, obj, attr, old=False):
        I, st = self.I, self.st
        if old:
            saved = st.heap
            st.heap = dict(self.pre_heap)
            try:
                return I.get_attr(st, obj, attr).term
            finally:
                st.heap = saved
        return I.get_attr(st, obj, attr).term
