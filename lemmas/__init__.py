"""Property-level lemmas: pure SMT obligations over the *contracts* (not over code)."""
from . import c20  # noqa
