"""C20: burst delay, window bound, no over-throttling -- lemmas over TokenBucketLimiter.consume's contract."""
import z3
from pyvc.props import lemma, LEVELS, ASSUMPTIONS, NOT_COVERED
from .util import Step

LEVELS["C20"] = "proof"
ASSUMPTIONS["C20"] = [
    "floats are real numbers (machine arithmetic treated as mathematical)",
    "time.time() is monotone (ghost clock)",
    "every caller waits exactly the time consume() returns before sending (the property's hypothesis); "
    "TokenBucketLimiter.wait is `await asyncio.sleep(self.consume())` (assumed asyncio.sleep contract)",
    "the induction over the number of requests is the standard one: the step lemmas below are the unbounded part, "
    "the base case is __init__'s contract",
]
Q = "basana.core.token_bucket.TokenBucketLimiter.consume"


def zmax(a, b):
    return z3.If(a >= b, a, b)


@lemma("C20")
def c20_lemmas():
    s = Step(Q)
    me = s.args["self"]
    tok0, last0 = s.field(me, "_tokens", old=True), s.field(me, "_last", old=True)
    tok1, last1 = s.field(me, "_tokens"), s.field(me, "_last")
    tpp, per, cap = s.field(me, "_tokens_per_period"), s.field(me, "_period_duration"), s.field(me, "_capacity")
    rate = tpp / per
    w = s.result.term
    H = s.hyps
    T0 = last0 - tok0 / rate          # virtual time at which the token taken by the previous request was earned
    T1 = last1 - tok1 / rate
    out = []
    # burst: a request arriving with no time elapsed takes the level from a-k to a-(k+1) and waits max(0,k+1-a)/rate
    a, k = z3.Reals("a k")
    out.append(("C20.burst.step", H + [last1 == last0, k >= 0, a <= cap, tok0 == a - k],
                z3.And(tok1 == a - (k + 1), w == zmax(0, (k + 1) - a) / rate, w >= 0),
                "k-th simultaneous request from level a: level a-k, delay max(0,k-a)/rate (inductive step over k)"))
    # window: GCRA recurrence
    out.append(("C20.window.virtual_time_advances", H, T1 >= T0 + 1 / rate, "T_{k+1} >= T_k + 1/rate"))
    out.append(("C20.window.level_below_capacity", H, tok1 <= cap - 1, "level after a request <= capacity - 1"))
    out.append(("C20.window.send_time", H, last1 + w == zmax(last1, T1), "send time = max(arrival, virtual time)"))
    s0 = zmax(last0, T0)
    out.append(("C20.window.send_times_monotone", H, last1 + w >= s0, "send times are non-decreasing"))
    Tref, n = z3.Reals("Tref n")
    out.append(("C20.window.induction_step", H + [n >= 0, T0 >= Tref + n / rate], T1 >= Tref + (n + 1) / rate,
                "one more request preserves T_cur >= T_ref + n/rate (no bound on n)"))
    # window arithmetic: n+1 sends inside a window of length L
    L, sk, sn, Tk, Tn, r, c = z3.Reals("L sk sn Tk Tn r c")
    out.append(("C20.window.count", [r > 0, c > 0, n >= 0, L >= 0, Tn >= Tk + n / r, sk <= Tk + zmax(c - 1, 0) / r, sn >= Tn,
                                     sn - sk <= L],
                n + 1 <= c + r * L + 1, "n+1 sends within a window of length L  =>  n+1 <= capacity + rate*L + 1"))
    # never over-throttles: a positive wait means the bucket really was empty, and refill is at `rate` up to capacity
    out.append(("C20.no_overthrottle", H, z3.And(z3.Implies(w > 0, tok1 < 0), w >= 0,
                                                 tok1 == z3.If(tok0 + (last1 - last0) * rate > cap, cap, tok0 + (last1 - last0) * rate) - 1),
                "wait > 0 only with an empty bucket; level = min(cap, level + lapse*rate) - 1"))
    return out
