"""F-C13-1: SchedulerQueue.peek_last_event_dt returned self._queue[-1].when, the last slot of the heap list, which is a
leaf but not necessarily the latest job.  The backtesting dispatcher drains scheduled jobs up to that datetime before it
stops, so a job scheduled later than the last heap slot never ran.  exit 1 = reproduced (job lost), exit 0 = not."""
import asyncio, datetime, sys
import basana as bs

async def main():
    d = bs.backtesting_dispatcher()
    base = datetime.datetime(2020, 1, 1, tzinfo=datetime.timezone.utc)
    ran = []
    def mk(h):
        async def job():
            ran.append(h)
        return job
    for h in (1, 3, 2):
        d.schedule(base + datetime.timedelta(hours=h), mk(h))
    await d.run()
    return ran

ran = asyncio.run(main())
print("ran:", ran)
sys.exit(0 if sorted(ran) == [1, 2, 3] else 1)
