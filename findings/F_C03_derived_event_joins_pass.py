"""F-C03-1: BacktestingDispatcher._dispatch_events iterated the lazy pop_while() generator while awaiting TaskPool.push
inside the loop.  When the pool is saturated (max_concurrent smaller than the number of due events) push() suspends,
handlers of events popped earlier run, and the events they publish on derived sources (the exchange re-publishes each bar
after matching orders) are popped in the *same* pass -- before primary bar events of the same timestamp that were
subscribed later.  A strategy handling the derived bar of pair A at time T then submits an order on pair C that is matched
against C's bar of the same time T: look-ahead, and a result that depends on max_concurrent.
exit 1 = reproduced, exit 0 = not."""
import asyncio, datetime, logging, sys
from decimal import Decimal
import basana as bs
from basana.backtesting import exchange as bt_exchange, liquidity

logging.disable(logging.CRITICAL)
A, B, C = bs.Pair("AAA", "USD"), bs.Pair("BBB", "USD"), bs.Pair("CCC", "USD")
T0 = datetime.datetime(2020, 1, 1, tzinfo=datetime.timezone.utc)


def source(pair, base):
    evs = []
    for i in range(4):
        begin = T0 + datetime.timedelta(days=i)
        o = Decimal(base + 10 * i)
        evs.append(bs.BarEvent(begin + datetime.timedelta(days=1), bs.Bar(begin, pair, o, o + 3, o - 3, o + 1, Decimal(10 ** 6))))
    return bs.FifoQueueEventSource(events=evs)


def run(max_concurrent):
    d = bs.backtesting_dispatcher(max_concurrent=max_concurrent)
    e = bt_exchange.Exchange(d, {"USD": Decimal(10 ** 6)}, liquidity_strategy_factory=liquidity.InfiniteLiquidity)
    submitted = {}

    async def on_a_bar(bar_event):
        created = await e.create_market_order(bs.OrderOperation.BUY, C, Decimal(1))
        submitted[created.id] = bar_event.when

    # wiring: pair A completely (source + strategy), then the other pairs' sources
    e.add_bar_source(source(A, 100))
    e.subscribe_to_bar_events(A, on_a_bar)
    e.add_bar_source(source(B, 200))
    e.add_bar_source(source(C, 300))
    asyncio.run(d.run(stop_signals=[]))
    out = []
    for order in e._get_all_orders():
        for fill in order.fills:
            out.append((str(submitted[order.id].date()), str(fill.when.date())))
    return sorted(out)

ref = run(50)
bad = 0
for mc in (1, 2, 3, 50):
    fills = run(mc)
    look_ahead = [f for f in fills if f[1] <= f[0]]
    print("max_concurrent=%d (submitted, filled): %s%s%s" % (mc, fills[:3], "  LOOK-AHEAD" if look_ahead else "",
                                                             "  DIFFERS from max_concurrent=50" if fills != ref else ""))
    bad += bool(look_ahead) or fills != ref
sys.exit(1 if bad else 0)
