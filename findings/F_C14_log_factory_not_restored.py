"""F-C14-2: logs.backtesting_log_mode restored the logging record factory only on a normal exit.  When the run ended with
an exception (here: a producer's main() raises) the factory that calls dispatcher.now() stayed installed process-wide.
exit 1 = reproduced (factory not restored), exit 0 = restored."""
import asyncio, logging, sys
import basana as bs
from basana.core import event


class BadProducer(event.Producer):
    async def main(self):
        raise RuntimeError("producer failed")


class Src(event.FifoQueueEventSource):
    pass


async def main():
    d = bs.backtesting_dispatcher()
    src = Src(producer=BadProducer())

    async def h(e):
        pass
    d.subscribe(src, h)
    try:
        await d.run()
    except RuntimeError:
        pass

before = logging.getLogRecordFactory()
asyncio.run(main())
after = logging.getLogRecordFactory()
print("restored:", after is before)
sys.exit(0 if after is before else 1)
