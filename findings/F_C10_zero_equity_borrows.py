"""F-C10-1: MarginLoans._check_margin_level rejects an update only when 0 < margin_level < 100.  _calculate_margin_level
returns 0 both when no margin is in use and when the equity is zero, so an account with no equity at all passes the
check: an empty account is granted a loan of any size.  exit 1 = reproduced (loan granted), exit 0 = refused."""
import asyncio, datetime, sys
from decimal import Decimal
import basana as bs
from basana.backtesting import exchange as bt_exchange, lending, errors as bt_errors
from basana.core import errors

d = bs.backtesting_dispatcher()
conditions = lending.MarginLoanConditions(
    interest_symbol="USD", interest_percentage=Decimal("7"), interest_period=datetime.timedelta(days=365),
    min_interest=Decimal("0"), margin_requirement=Decimal("0.5"))
strategy = lending.MarginLoans("USD", default_conditions=conditions)
e = bt_exchange.Exchange(d, {}, lending_strategy=strategy)          # empty account: zero equity
e.set_symbol_precision("USD", 2)


async def main():
    d._set_now(datetime.datetime(2024, 1, 1, tzinfo=datetime.timezone.utc))
    try:
        loan = await e.create_loan("USD", Decimal("1000000"))
    except errors.Error as ex:
        print("refused:", type(ex).__name__, ex)
        return 0
    bal = await e.get_balance("USD")
    print("granted loan", loan.id[:8], "borrowed", bal.borrowed, "available", bal.available, "margin level", strategy.margin_level)
    return 1

sys.exit(asyncio.run(main()))
