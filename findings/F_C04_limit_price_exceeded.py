"""F-C04-1: a liquidity-capped partial fill whose base amount is not a multiple of the base precision is priced before
it is truncated: the quote amount is computed for 1.5 base, the base amount is then truncated to 1 -- a buy limit order at
10 pays 15.00 for 1 unit (effective price 15 > limit).  exit 1 = reproduced, exit 0 = effective price within the limit."""
import asyncio, datetime, logging, sys
from decimal import Decimal
import basana as bs
from basana.backtesting import exchange as bt_exchange, liquidity, fees

logging.disable(logging.CRITICAL)
P = bs.Pair("AAA", "USD")
T0 = datetime.datetime(2020, 1, 1, tzinfo=datetime.timezone.utc)
d = bs.backtesting_dispatcher()
e = bt_exchange.Exchange(d, {"USD": Decimal(1000)}, fee_strategy=fees.NoFee(),
                         liquidity_strategy_factory=lambda: liquidity.VolumeShareImpact(Decimal(25), Decimal(0)))
e.set_pair_info(P, bs.PairInfo(0, 2))
e.set_symbol_precision("AAA", 0)
e.set_symbol_precision("USD", 2)
bars = [bs.BarEvent(T0 + datetime.timedelta(days=i + 1),
                    bs.Bar(T0 + datetime.timedelta(days=i), P, Decimal(10), Decimal(10), Decimal(10), Decimal(10), Decimal(6)))
        for i in range(2)]
e.add_bar_source(bs.FifoQueueEventSource(events=bars))
ids = []


async def on_bar(ev):
    if not ids:
        ids.append((await e.create_limit_order(bs.OrderOperation.BUY, P, Decimal(3), Decimal(10))).id)

e.subscribe_to_bar_events(P, on_bar)
asyncio.run(d.run(stop_signals=[]))
bad = 0
for o in e._get_all_orders():
    for f in o.fills:
        b, q = f.balance_updates.get("AAA", Decimal(0)), -f.balance_updates.get("USD", Decimal(0))
        print("fill: base", b, "quote", q, "effective price", (q / b) if b else None, "limit 10")
        if b and q > Decimal(10) * b + Decimal("0.005"):
            bad = 1
sys.exit(bad)
