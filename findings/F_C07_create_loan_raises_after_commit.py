"""F-C07-2 / C02: LoanManager.create_loan raised *after* it had committed the loan.

Failing history (pinned tree): MarginLoans, BTC conditions with interest charged in USD, interest_period 0 (flat
interest), margin_requirement 0; no BTC/USD price yet.  create_loan("BTC", 1) raises NoPrice from _build_loan_info, but
the balance (+1 BTC), the borrowed amount (+1 BTC) and the open loan are already recorded: the rejected request left a
loan behind (C07) and borrowed != sum of open principal as seen through the API that failed (C02).
Run:  cd /repo && /venv/bin/python /verif/findings/F_C07_create_loan_raises_after_commit.py
exit 0 = request left the account untouched (fixed), exit 1 = defect reproduced.
"""
import asyncio, datetime, sys, os
from decimal import Decimal
sys.path.insert(0, os.getcwd())
import basana as bs
from basana.backtesting import exchange, lending, errors


async def main():
    d = bs.backtesting_dispatcher()
    cond = lending.MarginLoanConditions(interest_symbol="USD", interest_percentage=Decimal("10"),
                                        interest_period=datetime.timedelta(0), min_interest=Decimal(0),
                                        margin_requirement=Decimal(0))
    strat = lending.MarginLoans("USD", default_conditions=cond)
    e = exchange.Exchange(d, {"USD": Decimal(1000)}, lending_strategy=strat)
    e.set_symbol_precision("USD", 2)
    e.set_symbol_precision("BTC", 8)
    d._set_now(datetime.datetime(2020, 1, 1, tzinfo=datetime.timezone.utc))
    before = {s: (await e.get_balance(s)) for s in ("USD", "BTC")}
    try:
        await e.create_loan("BTC", Decimal(1))
        print("loan granted (a price existed?)")
        return 0
    except errors.Error as ex:
        print("create_loan raised:", type(ex).__name__, ex)
    after = {s: (await e.get_balance(s)) for s in ("USD", "BTC")}
    loans = e._loan_mgr._loans.get_all()
    n_open = len([l for l in loans if l.is_open])
    print("BTC before:", before["BTC"], "after:", after["BTC"], "open loans:", n_open)
    if after != before or n_open:
        print("REPRODUCED: the rejected create_loan changed the account / left a loan behind")
        return 1
    print("OK: rejected request left the account untouched")
    return 0

sys.exit(asyncio.run(main()))
