"""F-C06-1 / F-C07-1: closing an order can fail to release its hold; a failed cancel_order still cancels the order.

History (pinned tree): MarginLoans (margin requirement 0.5).  The account shorts 15 BTC at 10 (borrowed), then places a
limit BUY that puts 1.00 USD on hold.  BTC goes to 100: the margin level drops into (0, 100).  cancel_order() marks the
order cancelled and then asks the account to release the hold; CheckMarginLevel rejects *every* update while the level is
in (0,100) -- also a pure hold release -- so cancel_order raises NotEnoughBalance.  Afterwards: no order is open, 1.00 USD
is still on hold (C06), and the failed cancellation did change the order (C07).
exit 1 = reproduced.
"""
import asyncio, datetime, sys, os
from decimal import Decimal
sys.path.insert(0, os.getcwd())
import basana as bs
from basana.backtesting import exchange, lending, errors
from basana.core.pair import Pair

P = Pair("BTC", "USD")
T0 = datetime.datetime(2020, 1, 1, tzinfo=datetime.timezone.utc)


def bar(i, price):
    p = Decimal(price)
    return bs.BarEvent(T0 + datetime.timedelta(days=i + 1), bs.Bar(T0 + datetime.timedelta(days=i), P, p, p, p, p, Decimal(1000)))


async def main():
    d = bs.backtesting_dispatcher()
    cond = lending.MarginLoanConditions(interest_symbol="USD", interest_percentage=Decimal(0),
                                        interest_period=datetime.timedelta(days=365), min_interest=Decimal(0),
                                        margin_requirement=Decimal("0.5"))
    e = exchange.Exchange(d, {"USD": Decimal(200)}, lending_strategy=lending.MarginLoans("USD", default_conditions=cond))
    e.set_symbol_precision("USD", 2)
    e.set_symbol_precision("BTC", 8)
    src = bs.FifoQueueEventSource(events=[bar(0, 10), bar(1, 10), bar(2, 100), bar(3, 100)])
    e.add_bar_source(src)
    state = {}

    async def on_bar(ev):
        n = state.setdefault("n", 0)
        state["n"] = n + 1
        try:
            if n == 0:
                await e.create_market_order(bs.OrderOperation.SELL, P, Decimal(15), auto_borrow=True)
            elif n == 1:
                o = await e.create_limit_order(bs.OrderOperation.BUY, P, Decimal(1), Decimal("1.00"))
                state["oid"] = o.id
            elif n == 2:
                try:
                    await e.cancel_order(state["oid"])
                    state["cancel"] = "ok"
                except errors.Error as ex:
                    state["cancel"] = "%s: %s" % (type(ex).__name__, ex)
                state["open"] = [o.id for o in await e.get_open_orders()]
                state["hold"] = (await e.get_balance("USD")).hold
                state["info_open"] = (await e.get_order_info(state["oid"])).is_open
        except Exception as ex:
            state["err"] = repr(ex)

    e.subscribe_to_bar_events(P, on_bar)
    await d.run()
    print(state)
    if state.get("cancel", "ok") != "ok" and (state.get("hold") or not state.get("info_open")):
        print("REPRODUCED: cancel_order failed, yet the order is closed and %s USD is still on hold with no open order" % state.get("hold"))
        return 1
    return 0

sys.exit(asyncio.run(main()))
