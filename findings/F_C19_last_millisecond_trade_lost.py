"""F-C19-1: RealTimeTradesToBar windows are [begin, begin + duration) but main() called _flush(begin, end) with
end = begin + duration - 1 ms, and _flush treats `when > end` as "belongs to a later window".  A trade inside the last
millisecond of its window (timestamps have microsecond resolution) was kept as a future trade and then discarded by the
next flush as out of order: it ended up in no bar.  The script runs the real main() under a virtual clock.
exit 1 = reproduced (trade lost), exit 0 = every trade is in exactly one bar."""
import asyncio, datetime, sys
from decimal import Decimal
import basana as bs
from basana.core import bar

errors = []
clock = [datetime.datetime(2024, 1, 1, 0, 0, 0, 100000, tzinfo=datetime.timezone.utc)]


class Agg(bar.RealTimeTradesToBar):
    def on_error(self, error):
        errors.append(str(error))

agg = Agg(bs.Pair("BTC", "USD"), 60, skip_first_bar=False, flush_delay=0.5)
W0 = datetime.datetime(2024, 1, 1, 0, 0, 0, tzinfo=datetime.timezone.utc)
DUR = datetime.timedelta(seconds=60)
sleeps = [0]


async def fake_sleep(secs):
    # the trades arrive while main() sleeps until the end of the first window
    if sleeps[0] == 0:
        agg.push_trade(W0 + datetime.timedelta(seconds=1), Decimal(100), Decimal(1))
        agg.push_trade(W0 + datetime.timedelta(seconds=59, microseconds=999500), Decimal(105), Decimal(2))  # last ms of window 1
        agg.push_trade(W0 + DUR + datetime.timedelta(milliseconds=100), Decimal(110), Decimal(4))           # window 2
    sleeps[0] += 1
    if sleeps[0] > 2:
        raise asyncio.CancelledError()
    clock[0] += datetime.timedelta(seconds=secs)

bar.dt.utc_now = lambda: clock[0]
bar.asyncio.sleep = fake_sleep
try:
    asyncio.run(agg.main())
except asyncio.CancelledError:
    pass
vol = Decimal(0)
while (e := agg.pop()) is not None:
    print("bar", e.bar.datetime.time(), "volume", e.bar.volume, "close", e.bar.close)
    vol += e.bar.volume
print("total volume in bars:", vol, "of 7; reported errors:", len(errors))
sys.exit(0 if vol == 7 else 1)
