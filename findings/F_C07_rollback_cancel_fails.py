"""F-C07-3: OrderManager._borrow's rollback can itself be rejected, leaving a loan behind.

History (pinned tree): MarginLoans; USD loans need margin 1, BTC loans need margin 0; every loan has a minimum interest
of 10 USD.  Account: 1010 USD.  (1) borrow 1000 USD: margin level is exactly 100 once the loan's minimum interest is
counted.  (2) auto-borrow SELL 1 BTC @ 1.00 with a 5000 USD minimum fee: the exchange borrows 1 BTC (granted), then
needs 2989 USD (refused: margin).  The rollback cancels the BTC loan, but CheckMarginLevel now counts the BTC loan's own
minimum interest (the loan is still open while the update is checked): level 1010/1020 < 100 -> the cancellation is
refused.  create_order fails, yet 1 BTC stays borrowed and the loan stays open (C07: "an order rejected for
insufficient funds or margin leaves no loan behind").
exit 1 = reproduced, exit 0 = request left the account untouched.
"""
import asyncio, datetime, sys, os
from decimal import Decimal
sys.path.insert(0, os.getcwd())
import basana as bs
from basana.backtesting import exchange, lending, errors, fees
from basana.core.pair import Pair


async def main():
    d = bs.backtesting_dispatcher()
    day = datetime.timedelta(days=1)
    usd = lending.MarginLoanConditions(interest_symbol="USD", interest_percentage=Decimal(0), interest_period=day,
                                       min_interest=Decimal(10), margin_requirement=Decimal(1))
    btc = lending.MarginLoanConditions(interest_symbol="USD", interest_percentage=Decimal(0), interest_period=day,
                                       min_interest=Decimal(10), margin_requirement=Decimal(0))
    strat = lending.MarginLoans("USD", default_conditions=usd)
    strat.set_conditions("BTC", btc)
    e = exchange.Exchange(d, {"USD": Decimal(1010)}, lending_strategy=strat,
                          fee_strategy=fees.Percentage(Decimal(1), min_fee=Decimal(5000)))
    e.set_symbol_precision("USD", 2)
    e.set_symbol_precision("BTC", 8)
    d._set_now(datetime.datetime(2020, 1, 1, tzinfo=datetime.timezone.utc))
    await e.create_loan("USD", Decimal(1000))
    snap = lambda: {s: (e._balances.balances.get(s, 0), e._balances.holds.get(s, 0), e._balances.borrowed.get(s, 0)) for s in ("USD", "BTC")}
    before = snap()
    open_before = sorted(l.id for l in e._loan_mgr._loans.get_all() if l.is_open)
    try:
        await e.create_limit_order(bs.OrderOperation.SELL, Pair("BTC", "USD"), Decimal(1), Decimal("1.00"), auto_borrow=True)
        print("order accepted?!")
        return 0
    except errors.Error as ex:
        print("create_order raised:", type(ex).__name__, ex)
    after = snap()
    open_after = sorted(l.id for l in e._loan_mgr._loans.get_all() if l.is_open)
    print("before:", before, len(open_before), "open loans")
    print("after: ", after, len(open_after), "open loans")
    if after != before or open_after != open_before:
        print("REPRODUCED: the rejected order left a loan behind")
        return 1
    print("OK: rejected request left the account untouched")
    return 0

sys.exit(asyncio.run(main()))
