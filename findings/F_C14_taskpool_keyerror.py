"""F-C14-1: TaskPool._wait_impl did `self._tasks.remove(task)` for every task asyncio.wait reported done.  When two
coroutines wait on the same full pool (the realtime dispatcher gathers _push_scheduled and _push_events, both of which
block in push() when the pool is full) both are woken for the same finished task; the second remove raises KeyError,
which escapes RealtimeDispatcher.run() as an internal error.  exit 1 = reproduced, exit 0 = run ended normally."""
import asyncio, datetime, sys
import basana as bs
from basana.core import event, dt


async def main():
    d = bs.realtime_dispatcher(max_concurrent=1)
    src = event.FifoQueueEventSource()
    handled = []

    async def on_event(e):
        await asyncio.sleep(0.01)
        handled.append(("event", e.when))

    def mk(i):
        async def job():
            await asyncio.sleep(0.01)
            handled.append(("job", i))
        return job

    d.subscribe(src, on_event)
    now = dt.utc_now()
    for i in range(3):
        src.push(event.Event(now - datetime.timedelta(seconds=3 - i)))
        d.schedule(now - datetime.timedelta(seconds=3 - i), mk(i))

    async def stopper():
        await asyncio.sleep(0.5)
        d.stop()
    d.schedule(now, stopper)
    await d.run()
    return handled

try:
    handled = asyncio.run(main())
    print("handled", len(handled))
    sys.exit(0)
except KeyError as e:
    print("KeyError escaped run():", repr(e)[:80])
    sys.exit(1)
