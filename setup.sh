#!/bin/sh
# Offline setup: nothing to fetch. pyvc runs under python3-vt (z3-solver, cvc5 wheels pre-installed).
set -e
cd "$(dirname "$0")"
python3-vt -c "import z3; print('z3', z3.get_version_string())"
python3-vt -m compileall -q pyvc contracts 2>/dev/null || true
