#!/bin/sh
# usage: tools/try_seed.sh <patch.diff> <prop> [more props...] : apply patch to /repo, run checks, restore
P="$1"; shift
git -C /repo apply --check "$P" 2>/dev/null || { echo "PATCH DOES NOT APPLY: $P"; git -C /repo apply --3way "$P" 2>&1 | tail -2; }
git -C /repo apply "$P" 2>/dev/null || git -C /repo apply --3way "$P" >/dev/null 2>&1
for prop in "$@"; do
  /verif/check "$prop" 2>&1 | tail -4
  echo "exit=$?"
done
git -C /repo reset -q HEAD -- . ; git -C /repo checkout -- . ; git -C /repo status --short | head -3
