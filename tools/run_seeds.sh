#!/bin/sh
# usage: tools/run_seeds.sh [Cxx ...]   applies every seeded/<prop>/<v>/patch.diff to /repo in turn, runs ./check <prop>
# (plus the extra properties listed in seeded/<prop>/<v>/also), prints one line per seed, restores /repo each time.
# Never run concurrently with another check: it edits the working tree of /repo.
cd /verif
props="$@"; [ -z "$props" ] && props=$(ls seeded | grep '^C')
for p in $props; do
  for v in $(ls seeded/$p); do
    d=seeded/$p/$v
    [ -f $d/patch.diff ] || continue
    git -C /repo checkout -q -- . ; git -C /repo reset -q HEAD -- .
    if ! git -C /repo apply $d/patch.diff 2>/dev/null; then echo "SEED $p/$v patch-does-not-apply"; continue; fi
    also=""; [ -f $d/also ] && also=$(cat $d/also)
    res=""
    for q in $p $also; do
      out=$(./check $q --tier quick 2>&1 | tail -3)
      line=$(echo "$out" | tail -1)
      ex=$(echo "$line" | sed 's/.*exit=//')
      viol=$(echo "$out" | grep -c VIOLATION)
      res="$res $q:exit=$ex"
    done
    echo "SEED $p/$v$res"
    git -C /repo checkout -q -- . ; git -C /repo reset -q HEAD -- .
  done
done
git -C /repo status --short | head -3
