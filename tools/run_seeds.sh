#!/bin/sh
# usage: tools/run_seeds.sh [Cxx ...]
# Applies every seeded/<prop>/<v>/patch.diff to a scratch worktree of /repo (never to /repo itself), runs the property's
# quick check against it (PYVC_REPO), with evidence / replay files redirected (PYVC_OUT), and prints one line per seed.
cd /verif
WT=${SEED_WT:-/tmp/pyvc_seed_wt}
OUTD=${SEED_OUT:-/tmp/pyvc_seed_out}
git -C /repo worktree remove --force $WT 2>/dev/null
rm -rf $WT $OUTD; mkdir -p $OUTD
git -C /repo worktree add -q --detach $WT HEAD || exit 3
props="$@"; [ -z "$props" ] && props=$(ls seeded | grep '^C')
for p in $props; do
  for v in $(ls seeded/$p); do
    d=seeded/$p/$v
    [ -f $d/patch.diff ] || continue
    git -C $WT checkout -q -- . ; git -C $WT clean -fdq
    if ! git -C $WT apply /verif/$d/patch.diff 2>/dev/null; then echo "SEED $p/$v patch-does-not-apply"; continue; fi
    also=""; [ -f $d/also ] && also=$(cat $d/also)
    res=""
    for q in $p $also; do
      out=$(PYVC_REPO=$WT PYVC_OUT=$OUTD ./check $q --tier quick 2>&1 | tail -40)
      line=$(echo "$out" | tail -1)
      ex=$(echo "$line" | sed 's/.*exit=//')
      nv=$(echo "$out" | grep -c '^VIOLATION')
      nr=$(echo "$out" | grep '^VIOLATION' | grep -vc 'no-failing-input-found')
      und=$(echo "$out" | grep -m1 '^UNDECIDED' | cut -c1-140)
      res="$res | $q exit=$ex violations=$nv replayed=$nr $und"
    done
    echo "SEED $p/$v$res"
  done
done
git -C /repo worktree remove --force $WT
rm -rf $WT
