"""debug helper: python3-vt tools/dbg.py <function-qualname-substring> <obligation-substring> [path-json]
prints the instantiated-query model's values for the real/bool sub-terms of the goal"""
import sys, json
sys.path.insert(0, "/verif")
import contracts; contracts.load_all()
from pyvc.repo import Repo
from pyvc.interp import Interp
from pyvc.contracts import DB
from pyvc import verify, solve, prelude
import z3
repo = Repo(); I = Interp(repo, DB)
key = [k for k in DB.contracts if sys.argv[1] in k][0]
c = DB.get(key); fi = repo.functions[c.qualname]
res = verify.verify_function(I, c, fi)
obs = [o for o in res.obligations if sys.argv[2] in o.name and not o.meta.get("trivial")]
if len(sys.argv) > 3:
    p = json.loads(sys.argv[3]); obs = [o for o in obs if o.meta.get("path") == p]
ob = obs[0]
print(ob.name, ob.meta.get("path"), ob.meta.get("trail"))
sl = solve.slice_obligation(ob) or ob
allf = solve._all_formulas(sl, res.str_axioms)
qf, complete = solve.instantiate_quantifiers(allf)
ex = prelude.instantiate(qf)
s = z3.Solver(); s.set("timeout", 60000)
for f in qf + ex: s.add(f)
r = s.check(); print(r)
if r == z3.sat:
    m = s.model()
    g = solve._neg(ob.goal)
    seen = set()
    def walk(t, d=0):
        if t.get_id() in seen or d > 6: return
        seen.add(t.get_id())
        if z3.is_quantifier(t): return
        if t.sort() in (z3.BoolSort(), z3.RealSort(), z3.IntSort()) and not z3.is_const(t) or (z3.is_const(t) and t.decl().kind()==z3.Z3_OP_UNINTERPRETED):
            try:
                print("  " * d, str(m.eval(t, model_completion=True))[:40], "<=", str(t).replace("\n", " ")[:170])
            except Exception: pass
        for ch in t.children(): walk(ch, d + 1)
    walk(g)
if len(sys.argv) > 4:
    pat = sys.argv[4]
    for h in ob.hyps:
        t = str(h)
        if pat in t:
            print("HYP:", t.replace("\n", " ")[:1500]); print("--")
sums = list(prelude.apps_all(qf, []).get("msum", {}).values())
print("ground sums:", len(sums))
for t in sums[:40]:
    print("  ", str(t).replace("\n", " ")[:160], "=", m.eval(t, model_completion=True) if r == z3.sat else "")
if len(sys.argv) > 5 and r == z3.sat:
    # evaluate extra terms given as python expressions over z3 consts found by name
    names = {}
    for f in qf + ex:
        st_ = [f]; sn=set()
        while st_:
            t = st_.pop()
            if t.get_id() in sn: continue
            sn.add(t.get_id())
            if z3.is_quantifier(t): continue
            if z3.is_const(t) and t.decl().kind() == z3.Z3_OP_UNINTERPRETED: names[str(t)] = t
            st_.extend(t.children())
    for expr in sys.argv[5:]:
        try:
            t = eval(expr, {"z3": z3, "N": names, "prelude": prelude})
            print(expr, "=>", m.eval(t, model_completion=True))
        except Exception as e:
            print(expr, "ERR", e)
if "TRACE" in sys.argv and r == z3.sat:
    import re
    vers = sorted([n for n in names if n.startswith("hp__val_Str_Real!")], key=lambda x: int(x.split("!")[1]))
    obu = names['H__balance_updates#Ref'][names['order!2']]
    pair = names['H__pair#Pair'][names['order!2']]
    q = [d for d in [pair.sort().accessor(0, 1)]][0](pair)
    gp = [t for n, t in names.items() if n.startswith("H_gp#mmapv")][0]
    for v in ["H_$val#Str#Real"] + vers:
        if v not in names: continue
        val = m.eval(names[v][obu][q], model_completion=True)
        print(v, "obu[q] =", val)
    for h in sl.hyps:
        t = str(h)
        mm = re.match(r"hp__val_Str_Real!(\d+) ==", t)
        if mm: print(t.replace("\n", " ")[:300]); print("..")
if "ATOMS" in sys.argv and r == z3.sat:
    apps = prelude.apps_all(qf + ex, [])
    for a in apps.get("grid", {}).values():
        v = m.eval(a, model_completion=True); x = m.eval(a.arg(0), model_completion=True); p = m.eval(a.arg(1), model_completion=True)
        print(v, x, p, "|", str(a.arg(0)).replace("\n", " ")[:110], "||", str(a.arg(1)).replace("\n", " ")[:60])
