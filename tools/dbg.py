"""debug helper: python3-vt tools/dbg.py <function-qualname-substring> <obligation-substring> [path-json]
prints the instantiated-query model's values for the real/bool sub-terms of the goal"""
import sys, json
sys.path.insert(0, "/verif")
import contracts; contracts.load_all()
from pyvc.repo import Repo
from pyvc.interp import Interp
from pyvc.contracts import DB
from pyvc import verify, solve, prelude
import z3
repo = Repo(); I = Interp(repo, DB)
key = [k for k in DB.contracts if sys.argv[1] in k][0]
c = DB.get(key); fi = repo.functions[c.qualname]
res = verify.verify_function(I, c, fi)
obs = [o for o in res.obligations if sys.argv[2] in o.name and not o.meta.get("trivial")]
if len(sys.argv) > 3:
    p = json.loads(sys.argv[3]); obs = [o for o in obs if o.meta.get("path") == p]
ob = obs[0]
print(ob.name, ob.meta.get("path"), ob.meta.get("trail"))
allf = solve._all_formulas(ob, res.str_axioms)
qf, complete = solve.instantiate_quantifiers(allf)
ex = prelude.instantiate(qf)
s = z3.Solver(); s.set("timeout", 60000)
for f in qf + ex: s.add(f)
r = s.check(); print(r)
if r == z3.sat:
    m = s.model()
    g = solve._neg(ob.goal)
    seen = set()
    def walk(t, d=0):
        if t.get_id() in seen or d > 6: return
        seen.add(t.get_id())
        if z3.is_quantifier(t): return
        if t.sort() in (z3.BoolSort(), z3.RealSort(), z3.IntSort()) and not z3.is_const(t) or (z3.is_const(t) and t.decl().kind()==z3.Z3_OP_UNINTERPRETED):
            try:
                print("  " * d, str(m.eval(t, model_completion=True))[:40], "<=", str(t).replace("\n", " ")[:170])
            except Exception: pass
        for ch in t.children(): walk(ch, d + 1)
    walk(g)
if len(sys.argv) > 4:
    pat = sys.argv[4]
    for h in ob.hyps:
        t = str(h)
        if pat in t:
            print("HYP:", t.replace("\n", " ")[:1500]); print("--")
