"""regenerate contracts/SIZES.json: number of obligations per contract (only steers how a function is split into chunks)"""
import sys, json, os
sys.path.insert(0, "/verif")
import multiprocessing as mp
import contracts; contracts.load_all()
from pyvc.repo import Repo
from pyvc.interp import Interp
from pyvc.contracts import DB
from pyvc import verify

repo = Repo(); I = Interp(repo, DB)


def size(key):
    c = DB.contracts.get(key) or DB.variants.get(key)
    fi = repo.functions.get(c.qualname)
    if fi is None or c.trusted or not c.verify:
        return key, None
    res = verify.verify_function(I, c, fi)
    n = len(res.obligations)
    bc, bfi = verify.find_base_contract(I, c, fi)
    if bc is not None and res.error is None:
        n += len(verify.verify_refinement(I, c, fi, bc, bfi).obligations)
    return key, n

if __name__ == "__main__":
    keys = sorted(list(DB.contracts) + list(DB.variants))
    keys = [k for k in keys if not k.startswith("opaque:")]
    with mp.get_context("fork").Pool(16) as pool:
        out = dict(pool.map(size, keys, chunksize=1))
    out = {k: v for k, v in out.items() if v is not None}
    json.dump(out, open("/verif/contracts/SIZES.json", "w"), indent=0, sort_keys=True)
    shapes = {}
    for k in keys:
        c = DB.contracts.get(k) or DB.variants.get(k)
        fi = repo.functions.get(c.qualname)
        if fi is not None and c.loops:
            shapes[c.qualname] = verify.function_shape(fi)
    json.dump(shapes, open("/verif/contracts/SHAPES.json", "w"), indent=0, sort_keys=True)
    print(len(out), "contracts;", sum(out.values()), "obligations; largest:", sorted(out.items(), key=lambda kv: -kv[1])[:6])
