"""vacuity probe: python3-vt tools/feas.py <function-substring> <obligation-substring>
for each matching obligation check whether its hypotheses alone are satisfiable (instantiated query)"""
import sys, json
sys.path.insert(0, "/verif")
import contracts; contracts.load_all()
from pyvc.repo import Repo
from pyvc.interp import Interp
from pyvc.contracts import DB
from pyvc import verify, solve, prelude
from pyvc.state import Obligation
import z3
repo = Repo(); I = Interp(repo, DB)
keys = [k for k in list(DB.contracts) + list(DB.variants) if sys.argv[1] in k]
for key in keys:
    c = DB.contracts.get(key) or DB.variants.get(key); fi = repo.functions[c.qualname]
    res = verify.verify_function(I, c, fi)
    for ob in res.obligations:
        if sys.argv[2] not in ob.name:
            continue
        hyps = list(ob.hyps)
        # binary search for the first prefix that is unsat
        def chk(n):
            s = z3.Solver(); s.set("timeout", 20000)
            for h in hyps[:n] + res.str_axioms: s.add(h)
            return s.check()
        r = chk(len(hyps))
        print(ob.name, ob.meta.get("path"), "hyps:", r)
        if r == z3.unsat:
            lo, hi = 0, len(hyps)
            while lo < hi:
                mid = (lo + hi) // 2
                if chk(mid) == z3.unsat: hi = mid
                else: lo = mid + 1
            print("  first unsat prefix ends with hyp #%d:" % (lo - 1), str(hyps[lo - 1]).replace("\n", " ")[:600])
