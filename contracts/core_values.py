"""ValueMap: pointwise, total-over-Sym contracts (DESIGN section 4)."""
from pyvc.contracts import contract, specfun

VM = "basana.backtesting.value_map.ValueMap."

POINTWISE = {
    "__add__": "at(self, s) + at(other, s)",
    "__sub__": "at(self, s) - at(other, s)",
    "__rsub__": "at(other, s) - at(self, s)",
    "__radd__": "at(self, s) + at(other, s)",
}

for name, expr in POINTWISE.items():
    contract(VM + name, props=["C01", "C02", "C06", "C07", "C08"],
             types={"other": "Dict[Str,Real]"}, returns="ValueMap",
             ensures=[("fresh", "fresh(result)"),
                      ("pointwise", "forall(lambda s=Str: at(result, s) == %s)" % expr),
                      ("dom", "forall(lambda s=Str: (s in result) == ((s in self) or (s in other)))")],
             modifies=[])

INPLACE = {
    "__iadd__": "old(at(self, s)) + at(other, s)",
    "__isub__": "old(at(self, s)) - at(other, s)",
}
for name, expr in INPLACE.items():
    contract(VM + name, props=["C01", "C02", "C06", "C07", "C08"],
             types={"other": "Dict[Str,Real]"}, returns="ValueMap",
             requires=[("noalias", "not same_object(self, other)")],
             ensures=[("is_self", "same_object(result, self)"),
                      ("pointwise", "forall(lambda s=Str: at(self, s) == %s)" % expr),
                      ("dom", "forall(lambda s=Str: (s in self) == (old(s in self) or (s in other)))")],
             modifies=["content(self)"],
             loops={0: dict(
                 invariant=[("pointwise", "forall(lambda s=Str: at(self, s) == ((%s) if (s in SEEN) else old(at(self, s))))" % expr),
                            ("dom", "forall(lambda s=Str: (s in self) == (old(s in self) or (s in SEEN)))"),
                            ("all", "forall(lambda s=Str: (s in ALL) == (old(s in self) or (s in other)))")],
                 modifies=["content(self)"])})

contract(VM + "prune", props=["C01", "C08", "C09"],
         ensures=[("dom", "forall(lambda s=Str: (s in self) == (old(s in self) and old(at(self, s)) != 0))"),
                  ("vals", "forall(lambda s=Str: at(self, s) == old(at(self, s)))")],
         modifies=["content(self)"],
         loops={0: dict(
             invariant=[("dom", "forall(lambda s=Str: (s in self) == (old(s in self) and not (s in SEEN)))"),
                        ("vals", "forall(lambda s=Str: implies(s in self, at(self, s) == old(at(self, s))))"),
                        ("all", "forall(lambda s=Str: (s in ALL) == (old(s in self) and old(at(self, s)) == 0))")],
             modifies=["content(self)"])})

contract(VM + "truncate", props=["C08", "C11"],
         ensures=[("dom", "forall(lambda s=Str: (s in self) == old(s in self))"),
                  ("truncated", "forall(lambda s=Str: implies(s in self, at(self, s) == q_down(old(at(self, s)), cfg_symbol_info(config, s).precision)))"),
                  ("configured", "forall(lambda s=Str: implies(s in self, cfg_has_symbol(config, s)))")],
         raises={"Error!": [("missing", "exists(lambda s=Str: old(s in self) and not cfg_has_symbol(config, s))"),
                            ("dom", "forall(lambda s=Str: (s in self) == old(s in self))")]},
         modifies=["content(self)"],
         loops={0: dict(
             invariant=[("dom", "forall(lambda s=Str: (s in self) == old(s in self))"),
                        ("done", "forall(lambda s=Str: implies(s in SEEN, cfg_has_symbol(config, s) and at(self, s) == q_down(old(at(self, s)), cfg_symbol_info(config, s).precision)))"),
                        ("todo", "forall(lambda s=Str: implies(not (s in SEEN), at(self, s) == old(at(self, s))))"),
                        ("all", "forall(lambda s=Str: (s in ALL) == old(s in self))")],
             modifies=["content(self)"])})
