"""core.dispatcher / core.helpers / core.event / core.logs (C03, C12, C13, C14, C15)."""
from pyvc.contracts import contract, specfun

D = "basana.core.dispatcher."
H = "basana.core.helpers."

# ---------------------------------------------------------------------------------------------------------------------
# SchedulerQueue (C13): abstract view = the set of queued ScheduledJob objects (assumed heapq contract, see registry)
# ---------------------------------------------------------------------------------------------------------------------
SQ = D + "SchedulerQueue."
specfun("sq_min", ["q", "t"], "forall(lambda j=ScheduledJob: implies(j in q._queue, t <= j.when))")
specfun("sq_max", ["q", "t"], "forall(lambda j=ScheduledJob: implies(j in q._queue, j.when <= t))")
specfun("sq_has", ["q", "t"], "exists(lambda j=ScheduledJob: (j in q._queue) and j.when == t)")
contract(SQ + "__init__", props=["C13"], ensures=[("empty", "forall(lambda j=ScheduledJob: not (j in self._queue))")], modifies=["self"])
contract(SQ + "push", props=["C13"], types={"when": "DT"},
         ensures=[("added", "exists(lambda j=ScheduledJob: fresh(j) and j.when == when and (j in self._queue) "
                            "and forall(lambda o=ScheduledJob: (o in self._queue) == (old(o in self._queue) or same_object(o, j))))")],
         modifies=["content(self._queue)"])
contract(SQ + "peek_next_event_dt", props=["C13", "C15"], returns="Opt[DT]", modifies=[],
         ensures=[("none_iff_empty", "is_none(result) == forall(lambda j=ScheduledJob: not (j in self._queue))"),
                  ("minimum", "implies(not_none(result), sq_min(self, result) and sq_has(self, result))")])
# statement-derived (C13: "including jobs scheduled for after the last event, whatever order they were scheduled in"):
# the bound used for the final drain is at or after every queued job
contract(SQ + "peek_last_event_dt", props=["C13"], returns="Opt[DT]", modifies=[],
         ensures=[("none_iff_empty", "is_none(result) == forall(lambda j=ScheduledJob: not (j in self._queue))"),
                  ("maximum", "implies(not_none(result), sq_max(self, result))")])
contract(SQ + "pop", props=["C13", "C15"], returns="Tuple[DT,Fun]",
         requires=[("nonempty", "exists(lambda j=ScheduledJob: j in self._queue)")],
         ensures=[("removed_min", "exists(lambda j=ScheduledJob: old(j in self._queue) and not (j in self._queue) and j.when == result[0] "
                                  "and forall(lambda o=ScheduledJob: implies(not same_object(o, j), (o in self._queue) == old(o in self._queue))))"),
                  ("minimum", "forall(lambda o=ScheduledJob: implies(old(o in self._queue), result[0] <= o.when))")],
         modifies=["content(self._queue)"])
