"""core.dispatcher / core.helpers / core.event / core.logs (C03, C12, C13, C14, C15)."""
from pyvc.contracts import contract, specfun, class_invariant

D = "basana.core.dispatcher."
H = "basana.core.helpers."

# ---------------------------------------------------------------------------------------------------------------------
# SchedulerQueue (C13): abstract view = the set of queued ScheduledJob objects (assumed heapq contract, see registry)
# ---------------------------------------------------------------------------------------------------------------------
SQ = D + "SchedulerQueue."
specfun("sq_min", ["q", "t"], "forall(lambda j=ScheduledJob: implies(j in q._queue, t <= j.when))")
specfun("sq_max", ["q", "t"], "forall(lambda j=ScheduledJob: implies(j in q._queue, j.when <= t))")
specfun("sq_has", ["q", "t"], "exists(lambda j=ScheduledJob: (j in q._queue) and j.when == t)")
contract(SQ + "__init__", props=["C13"], ensures=[("empty", "forall(lambda j=ScheduledJob: not (j in self._queue))")], modifies=["self"])
contract(SQ + "push", props=["C13"], types={"when": "DT"},
         ensures=[("added", "exists(lambda j=ScheduledJob: fresh(j) and j.when == when and (j in self._queue) "
                            "and forall(lambda o=ScheduledJob: (o in self._queue) == (old(o in self._queue) or same_object(o, j))))")],
         modifies=["content(self._queue)"])
contract(SQ + "peek_next_event_dt", props=["C13", "C15"], returns="Opt[DT]", modifies=[],
         ensures=[("none_iff_empty", "is_none(result) == forall(lambda j=ScheduledJob: not (j in self._queue))"),
                  ("minimum", "implies(not_none(result), sq_min(self, result) and sq_has(self, result))")])
# statement-derived (C13: "including jobs scheduled for after the last event, whatever order they were scheduled in"):
# the bound used for the final drain is at or after every queued job
contract(SQ + "peek_last_event_dt", props=["C13"], returns="Opt[DT]", modifies=[],
         ensures=[("none_iff_empty", "is_none(result) == forall(lambda j=ScheduledJob: not (j in self._queue))"),
                  ("maximum", "implies(not_none(result), sq_max(self, result))")])
contract(SQ + "pop", props=["C13", "C15"], returns="Tuple[DT,Fun]",
         requires=[("nonempty", "exists(lambda j=ScheduledJob: j in self._queue)")],
         ensures=[("removed_min", "exists(lambda j=ScheduledJob: old(j in self._queue) and not (j in self._queue) and j.when == result[0] "
                                  "and forall(lambda o=ScheduledJob: implies(not same_object(o, j), (o in self._queue) == old(o in self._queue))))"),
                  ("minimum", "forall(lambda o=ScheduledJob: implies(old(o in self._queue), result[0] <= o.when))")],
         modifies=["content(self._queue)"])

# ---------------------------------------------------------------------------------------------------------------------
# logs.backtesting_log_mode (C14: "Whatever way a run ends, process-wide logging afterwards behaves as it did before")
# verified as a context manager: the with-body is an arbitrary suspension that ends normally or raises
# ---------------------------------------------------------------------------------------------------------------------
contract("basana.core.logs.backtesting_log_mode", props=["C14"], types={"dispatcher": "EventDispatcher"},
         ensures=[("factory_restored", "log_factory_restored()")],
         raises={"Exception": [("factory_restored", "log_factory_restored()")],
                 "CancelledError": [("factory_restored", "log_factory_restored()")]},
         modifies=[])

# ---------------------------------------------------------------------------------------------------------------------
# helpers.TaskPool (C14 bounded concurrency / no internal error; C12, C13 barrier `wait()`)
# Two interference models (rely = what other coroutines may do to the pool while this one is suspended):
#   default   the pool is driven by one coroutine (the backtesting dispatch loop): nobody else touches it
#   @shared   several coroutines push into / wait on the pool concurrently (realtime: gather(_push_scheduled,
#             _push_events), the gathered idle pushes): the others run push/_wait_impl themselves, so `_tasks` may lose
#             and gain members, bounded by `_max_size`
# ---------------------------------------------------------------------------------------------------------------------
TP = H + "TaskPool."
specfun("tp_wf", ["p"], "p._max_size > 0 and len(p._tasks) <= p._max_size")
SHARED = dict(variant="shared", rely_havoc=["content(self._tasks)", "content(self._done)"],
              rely=[("bounded", "len(self._tasks) <= self._max_size")])
contract(TP + "__init__", props=["C14"], raises={"AssertionError": [("bad_size", "size <= 0")]},
         ensures=[("wf", "tp_wf(self)"), ("empty", "len(self._tasks) == 0 and len(self._done) == 0 and self._max_size == size")],
         modifies=["self"])
contract(TP + "idle", props=["C15"], returns="Bool", ensures=[("def", "result == (len(self._tasks) == 0)")], modifies=[])
contract(TP + "pop_done", props=["C14"], returns="List[Task]",
         ensures=[("moved", "same_object(result, old(self._done)) and len(self._done) == 0")], modifies=["self._done"])
contract(TP + "cancel", props=["C14"],
         ensures=[("all_requested", "forall(lambda t=Task: implies(t in self._tasks, t.finished or t.cancel_requested))")],
         modifies=["every(Task, 'cancel_requested')"],
         loops={0: dict(invariant=[("seen", "forall(lambda t=Task: implies(t in SEEN, t.finished or t.cancel_requested))")],
                        modifies=["every(Task, 'cancel_requested')"])})
WAIT_LOOP_DEFAULT = {0: dict(invariant=[
    ("rest", "forall(lambda t=Task: (t in self._tasks) == (ENTRY(t in self._tasks) and not (t in SEEN)))"),
    ("count", "len(self._tasks) + card(SEEN) == ENTRY(len(self._tasks))")],
    modifies=["content(self._tasks)", "content(self._done)"])}
WAIT_LOOP_SHARED = {0: dict(invariant=[("bound", "len(self._tasks) <= ENTRY(len(self._tasks))")],
                            modifies=["content(self._tasks)", "content(self._done)"])}
for var, kw, loops_ in ((None, {}, WAIT_LOOP_DEFAULT), ("shared", SHARED, WAIT_LOOP_SHARED)):
    single = var is None
    contract(TP + "_wait_impl", props=["C14"], types={"timeout": "Opt[Real]", "return_when": "Str"}, returns="Bool",
             requires=[("wf", "tp_wf(self)")], may_suspend=True, cancellable=True,
             ensures=[("wf", "tp_wf(self)")] + ([
                 ("only_removes", "forall(lambda t=Task: implies(t in self._tasks, old(t in self._tasks)))"),
                 ("removed_finished", "forall(lambda t=Task: implies(old(t in self._tasks) and not (t in self._tasks), t.finished))"),
                 ("barrier", "implies(is_none(timeout) and return_when == 'ALL_COMPLETED', len(self._tasks) == 0)"),
                 ("progress", "implies(is_none(timeout) and old(len(self._tasks)) > 0, len(self._tasks) < old(len(self._tasks)))"),
             ] if single else []),
             # C14: never an internal error (KeyError from set.remove): only the caller's cancellation may escape
             raises={"CancelledError": []},
             modifies=["content(self._tasks)", "content(self._done)"], loops=loops_, **kw)
    contract(TP + "wait", props=["C14", "C12", "C13"], types={"timeout": "Opt[Real]"}, returns="Bool",
             requires=[("wf", "tp_wf(self)")], may_suspend=True, cancellable=True,
             ensures=[("wf", "tp_wf(self)")] + ([
                 ("only_removes", "forall(lambda t=Task: implies(t in self._tasks, old(t in self._tasks)))"),
                 ("barrier", "implies(is_none(timeout), len(self._tasks) == 0)")] if single else []),
             raises={"CancelledError": []},
             modifies=["content(self._tasks)", "content(self._done)"], **kw)
    contract(TP + "push", props=["C14"], types={"coroutine": "Any"},
             requires=[("wf", "tp_wf(self)")], may_suspend=True, cancellable=True,
             ensures=[("bounded", "tp_wf(self)"),
                      ("added", "exists(lambda t=Task: fresh(t) and (t in self._tasks))")] + ([
                 ("others_from_before", "forall(lambda t=Task: implies(t in self._tasks, fresh(t) or old(t in self._tasks)))")] if single else []),
             raises={"CancelledError": []},
             modifies=["content(self._tasks)", "content(self._done)"],
             loops={0: dict(invariant=[("wf", "tp_wf(self)")] + ([
                 ("subset", "forall(lambda t=Task: implies(t in self._tasks, ENTRY(t in self._tasks)))")] if single else []),
                 modifies=["content(self._tasks)", "content(self._done)"])}, **kw)

# ---------------------------------------------------------------------------------------------------------------------
# event sources and the multiplexer (C12 global order, C03, C15)
# ---------------------------------------------------------------------------------------------------------------------
EV = "basana.core.event."
PENDING_KEPT = ("pending_kept", "forall(lambda e=Event: (e in self.pending) == old(e in self.pending))")
contract(EV + "EventSource.pop", abstract=True, props=["C12", "C03"], returns="Opt[Event]",
         ensures=[("from_pending", "is_none(result) or (result in self.pending)"), PENDING_KEPT],
         modifies=["owned(self)"],
         notes="interface contract of every event source: pop() returns an event or None and changes only the source")
contract(EV + "FifoQueueEventSource.pop", props=["C12"], returns="Opt[Event]",
         ensures=[("fifo", "ite(old(len(self._queue)) == 0, is_none(result) and len(self._queue) == 0, "
                           "not_none(result) and same_object(result, old(seq_at(self._queue, 0))) and len(self._queue) == old(len(self._queue)) - 1 "
                           "and forall(lambda i=Int: implies(0 <= i and i < len(self._queue), same_object(seq_at(self._queue, i), old(seq_at(self._queue, i + 1))))))"),
                 ("from_pending", "is_none(result) or (result in self.pending)"), PENDING_KEPT],
         modifies=["content(self._queue)"])
class_invariant("FifoQueueEventSource", [("queued_are_pending", "forall(lambda i=Int: implies(0 <= i and i < len(self._queue), seq_at(self._queue, i) in self.pending))")],
                private=["_queue"], props=["C03"])
contract(EV + "FifoQueueEventSource.push", props=["C12", "C03"],
         ghost_exit=[("self.pending", "mset_add(self.pending, event)")],
         ensures=[("produced", "forall(lambda e=Event: (e in self.pending) == (old(e in self.pending) or same_object(e, event)))"),
                  ("appended", "len(self._queue) == old(len(self._queue)) + 1 and same_object(seq_at(self._queue, old(len(self._queue))), event) "
                               "and forall(lambda i=Int: implies(0 <= i and i < old(len(self._queue)), same_object(seq_at(self._queue, i), old(seq_at(self._queue, i)))))")],
         modifies=["content(self._queue)", "self.pending"])

MUX = D + "EventMultiplexer."
# slot(s): the prefetched (look-ahead) event of source s
specfun("mux_due", ["m", "s", "t"], "(s in m._prefetched_events) and not_none(m._prefetched_events[s]) and m._prefetched_events[s].when <= t")
class_invariant("EventMultiplexer", [("slots_are_pending", "forall(lambda s=EventSource: implies((s in self._prefetched_events) and not_none(self._prefetched_events[s]), "
                                                            "self._prefetched_events[s] in s.pending))")],
                private=["_prefetched_events"], props=["C03"],
                stable_under="EventSource.pending only grows (rely of every dispatcher coroutine; pop() keeps it)")
ALL_PENDING_KEPT = ("pending_kept", "forall(lambda s=EventSource: forall(lambda e=Event: (e in s.pending) == old(e in s.pending)))")
contract(MUX + "__init__", props=["C12"], ensures=[("empty", "len(self._prefetched_events) == 0")], modifies=["self"])
contract(MUX + "add", props=["C12"],
         ensures=[("added", "source in self._prefetched_events"),
                  ("others", "forall(lambda s=EventSource: implies(not same_object(s, source), (s in self._prefetched_events) == old(s in self._prefetched_events)))"),
                  ("slots_kept", "forall(lambda s=EventSource: implies(old(s in self._prefetched_events), same_object(self._prefetched_events[s], old(self._prefetched_events[s]))))"),
                  ("new_slot_empty", "implies(not old(source in self._prefetched_events), is_none(self._prefetched_events[source]))"),
                  # subscription order: a new source comes after every source already there; the others keep their place
                  ("appended_last", "implies(not old(source in self._prefetched_events), forall(lambda s=EventSource: implies(old(s in self._prefetched_events), "
                                    "rank(self._prefetched_events, s) < rank(self._prefetched_events, source))))"),
                  ("order_kept", "forall(lambda s=EventSource: implies(old(s in self._prefetched_events), rank(self._prefetched_events, s) == old(rank(self._prefetched_events, s))))")],
         modifies=["content(self._prefetched_events)"])
MUX_MOD = ["content(self._prefetched_events)", "every(EventSource)"]
contract(MUX + "_prefetch", props=["C12"],
         ensures=[ALL_PENDING_KEPT,
                  ("slots_are_pending", "forall(lambda s=EventSource: implies((s in self._prefetched_events) and not_none(self._prefetched_events[s]), self._prefetched_events[s] in s.pending))"),
                  ("sources_kept", "forall(lambda s=EventSource: (s in self._prefetched_events) == old(s in self._prefetched_events))"),
                  ("filled_kept", "forall(lambda s=EventSource: implies(old(s in self._prefetched_events) and old(not_none(self._prefetched_events[s])), "
                                  "same_object(self._prefetched_events[s], old(self._prefetched_events[s]))))")],
         modifies=MUX_MOD,
         loops={0: dict(invariant=[
             ("pending_kept", "forall(lambda s=EventSource: forall(lambda e=Event: (e in s.pending) == ENTRY(e in s.pending)))"),
             ("slots_are_pending", "forall(lambda s=EventSource: implies((s in self._prefetched_events) and not_none(self._prefetched_events[s]), self._prefetched_events[s] in s.pending))"),
             ("sources_kept", "forall(lambda s=EventSource: (s in self._prefetched_events) == ENTRY(s in self._prefetched_events))"),
             ("filled_kept", "forall(lambda s=EventSource: implies(ENTRY(s in self._prefetched_events) and ENTRY(not_none(self._prefetched_events[s])), "
                             "same_object(self._prefetched_events[s], ENTRY(self._prefetched_events[s]))))")],
             modifies=MUX_MOD)})
contract(MUX + "peek_next_event_dt", props=["C12", "C03"], returns="Opt[DT]",
         ensures=[ALL_PENDING_KEPT, ("sources_kept", "forall(lambda s=EventSource: (s in self._prefetched_events) == old(s in self._prefetched_events))"),
                  ("filled_kept", "forall(lambda s=EventSource: implies(old(s in self._prefetched_events) and old(not_none(self._prefetched_events[s])), "
                                  "same_object(self._prefetched_events[s], old(self._prefetched_events[s]))))"),
                  ("none_iff_no_event", "is_none(result) == forall(lambda s=EventSource: implies(s in self._prefetched_events, is_none(self._prefetched_events[s])))"),
                  ("minimum", "implies(not_none(result), forall(lambda s=EventSource: implies((s in self._prefetched_events) and not_none(self._prefetched_events[s]), result <= self._prefetched_events[s].when)))"),
                  ("attained", "implies(not_none(result), exists(lambda s=EventSource: (s in self._prefetched_events) and not_none(self._prefetched_events[s]) and self._prefetched_events[s].when == result))")],
         modifies=MUX_MOD)
contract(MUX + "pop", props=["C12", "C03", "C15"], returns="Tuple[Opt[EventSource],Opt[Event]]",
         ensures=[ALL_PENDING_KEPT,
                  # C03: what pop hands out is an event its source had already produced
                  ("from_pending", "implies(not_none(result[1]), result[1] in result[0].pending)"),
                  ("both_or_none", "is_none(result[0]) == is_none(result[1])"),
                  ("sources_kept", "forall(lambda s=EventSource: (s in self._prefetched_events) == old(s in self._prefetched_events))"),
                  ("due", "implies(not_none(result[1]), result[1].when <= max_dt and old(result[0] in self._prefetched_events))"),
                  ("consumed", "implies(not_none(result[0]), is_none(self._prefetched_events[result[0]]))"),
                  # the oldest due event is the one returned: nothing left in the look-ahead slots is due and older
                  ("oldest", "implies(not_none(result[1]), forall(lambda s=EventSource: implies(mux_due(self, s, max_dt), result[1].when <= self._prefetched_events[s].when)))"),
                  ("none_means_nothing_due", "implies(is_none(result[1]), forall(lambda s=EventSource: not mux_due(self, s, max_dt)))"),
                  # C03/C12: among due events with the same time the source subscribed first is served first
                  ("earliest_subscribed_on_ties", "implies(not_none(result[0]), forall(lambda s=EventSource: implies(mux_due(self, s, max_dt) and self._prefetched_events[s].when == result[1].when, "
                                                  "rank(self._prefetched_events, result[0]) < rank(self._prefetched_events, s))))"),
                  ("order_kept", "forall(lambda s=EventSource: implies(old(s in self._prefetched_events), rank(self._prefetched_events, s) == old(rank(self._prefetched_events, s))))"),
                  # an event already waiting in a slot is returned by this call or still there: never dropped, never duplicated
                  ("no_loss", "forall(lambda s=EventSource: implies(old(s in self._prefetched_events) and old(not_none(self._prefetched_events[s])), "
                              "ite(not_none(result[0]) and same_object(s, result[0]), same_object(result[1], old(self._prefetched_events[s])), "
                              "same_object(self._prefetched_events[s], old(self._prefetched_events[s])))))")],
         modifies=MUX_MOD,
         loops={0: dict(invariant=[
             ("pending_kept", "forall(lambda s=EventSource: forall(lambda e=Event: (e in s.pending) == ENTRY(e in s.pending)))"),
             ("slots_are_pending", "forall(lambda s=EventSource: implies((s in self._prefetched_events) and not_none(self._prefetched_events[s]), self._prefetched_events[s] in s.pending))"),
             ("sources_kept", "forall(lambda s=EventSource: (s in self._prefetched_events) == ENTRY(s in self._prefetched_events))"),
             ("both", "is_none(ret_source) == is_none(ret_event)"),
             ("cand", "implies(not_none(ret_event), (ret_source in SEEN) and same_object(self._prefetched_events[ret_source], ret_event) and ret_event.when <= max_dt)"),
             ("oldest", "forall(lambda s=EventSource: implies((s in SEEN) and mux_due(self, s, max_dt), not_none(ret_event) and ret_event.when <= self._prefetched_events[s].when))"),
             ("earliest_on_ties", "forall(lambda s=EventSource: implies((s in SEEN) and mux_due(self, s, max_dt) and not_none(ret_event) and self._prefetched_events[s].when == ret_event.when "
                                  "and not same_object(s, ret_source), rank(self._prefetched_events, ret_source) < rank(self._prefetched_events, s)))"),
             ("order_kept", "forall(lambda s=EventSource: implies(ENTRY(s in self._prefetched_events), rank(self._prefetched_events, s) == ENTRY(rank(self._prefetched_events, s))))"),
             ("filled_kept", "forall(lambda s=EventSource: implies(ENTRY(s in self._prefetched_events) and ENTRY(not_none(self._prefetched_events[s])), "
                             "same_object(self._prefetched_events[s], ENTRY(self._prefetched_events[s]))))")],
             modifies=MUX_MOD)})

# ---------------------------------------------------------------------------------------------------------------------
# user callables the dispatcher merely stores: event handlers, scheduled jobs, idle handlers.  Awaiting one is a
# suspension point; it may raise anything (C14: "An exception in one handler or job never prevents ...")
# ---------------------------------------------------------------------------------------------------------------------
for nm in ("handler", "job", "idle_handler"):
    contract("opaque:" + nm, may_suspend=True, raises={"Exception": [], "CancelledError": []}, returns="Any",
             notes="arbitrary user coroutine function: may suspend, may raise any Exception, may be cancelled")

# what user code and other tasks may do to a dispatcher while one of its coroutines is suspended (public API only):
# schedule jobs, request stop, push events into sources.  They never write the private clock or the subscription tables
# (subscribing while running is refused by an assert), and the scheduler queue only grows (only the dispatch loop pops).
DISP_RELY = dict(
    rely_havoc=["self._stopped", "content(self._scheduler_queue._queue)", "every(EventSource)"],
    rely=[("stop_is_sticky", "implies(old(self._stopped), self._stopped)"),
          ("jobs_only_added", "forall(lambda j=ScheduledJob: implies(old(j in self._scheduler_queue._queue), j in self._scheduler_queue._queue))"),
          ("events_only_added", "forall(lambda s=EventSource: forall(lambda e=Event: implies(old(e in s.pending), e in s.pending)))")])

# the same rely for coroutines that never look at an event source (the untyped list-length array cannot tell a handler
# list from a source's queue, so the havoc of the sources is left out where it is unobservable; assumption: a list of
# handlers is never at the same time the queue of an event source -- their element types differ)
DISP_RELY_NOSRC = dict(rely_havoc=[x for x in DISP_RELY["rely_havoc"] if "EventSource" not in x], rely=DISP_RELY["rely"])

ED = D + "EventDispatcher."
TG = H + "TaskGroup."
STOP_MOD = ["self._stopped", "every(Task, 'cancel_requested')"]
contract(TG + "__init__", props=["C14"], ensures=[("empty", "len(self._tasks) == 0 and not self._exiting")], modifies=["self"])
contract(TG + "_cancel", props=["C14"], returns="List[Task]",
         ensures=[("fresh", "fresh(result)"),
                  # what is returned are the tasks that had not finished: every task of the group is finished or in the result
                  ("covers", "forall(lambda j=Int: implies(0 <= j and j < len(self._tasks), seq_at(self._tasks, j).finished "
                             "or exists(lambda i=Int: 0 <= i and i < len(result) and same_object(seq_at(result, i), seq_at(self._tasks, j)))))"),("all_requested", "forall(lambda i=Int: implies(0 <= i and i < len(self._tasks), seq_at(self._tasks, i).finished or seq_at(self._tasks, i).cancel_requested))")],
         modifies=["every(Task, 'cancel_requested')"],
         loops={0: dict(invariant=[("seen", "forall(lambda i=Int: implies(0 <= i and i < IDX, seq_at(pending, i).finished or seq_at(pending, i).cancel_requested))"),
                                   ("finished_kept", "forall(lambda t=Task: t.finished == ENTRY(t.finished))")],
                        modifies=["every(Task, 'cancel_requested')"])})
contract(TG + "cancel", props=["C14"],
         ensures=[("all_requested", "forall(lambda i=Int: implies(0 <= i and i < len(self._tasks), seq_at(self._tasks, i).finished or seq_at(self._tasks, i).cancel_requested))")],
         modifies=["every(Task, 'cancel_requested')"])
contract(TG + "create_task", props=["C14"], types={"coro": "Any"}, returns="Task",
         raises={"AssertionError": [("exiting", "self._exiting")]},
         ensures=[("appended", "fresh(result) and len(self._tasks) == old(len(self._tasks)) + 1 and same_object(seq_at(self._tasks, old(len(self._tasks))), result)"),
                  ("kept", "forall(lambda i=Int: implies(0 <= i and i < old(len(self._tasks)), same_object(seq_at(self._tasks, i), old(seq_at(self._tasks, i)))))")],
         modifies=["content(self._tasks)"])

contract(ED + "stop", props=["C14"],
         ensures=[("stopped", "self._stopped"),
                  ("pool_cancel_requested", "forall(lambda t=Task: implies(t in self._handlers_task_pool._tasks, t.finished or t.cancel_requested))")],
         modifies=STOP_MOD)
contract(ED + "stopped", props=["C14"], returns="Bool", ensures=[("def", "result == self._stopped")], modifies=[])
contract(ED + "schedule", props=["C13"], types={"when": "DT"},
         ensures=[("queued", "exists(lambda j=ScheduledJob: fresh(j) and j.when == when and (j in self._scheduler_queue._queue) "
                             "and forall(lambda o=ScheduledJob: (o in self._scheduler_queue._queue) == (old(o in self._scheduler_queue._queue) or same_object(o, j))))")],
         raises={"AssertionError": []},
         modifies=["content(self._scheduler_queue._queue)"])
# C14 fault isolation: whatever the handler / job raises (any Exception) is absorbed here; only cancellation (a
# BaseException) may propagate.  The declared raises set is the obligation: an `Exception` escaping fails `no_escape`.
contract(ED + "_call_event_handler", props=["C14", "C12"], types={"event": "Event", "handler": "Fun"}, returns="Any",
         may_suspend=True, raises={"CancelledError": []}, modifies=STOP_MOD, **DISP_RELY)
contract(ED + "_execute_scheduled", props=["C14", "C13"], types={"dt": "DT", "job": "Fun"},
         # C13: "with the dispatcher clock at or after its scheduled time" -- demanded where the job is handed to the pool
         requires=[("clock_reached", "implies(typeis(self, 'BacktestingDispatcher'), not_none(self._last_dt) and self._last_dt >= dt)"),
                   ("due", "implies(typeis(self, 'RealtimeDispatcher'), dt <= clock('utc'))")],
         may_suspend=True, raises={"CancelledError": []}, modifies=STOP_MOD, **DISP_RELY)

# subscription tables (C12: "each event exactly once to each handler subscribed to its source (duplicate subscriptions
# are ignored) ... handlers started in subscription order")
specfun("no_dups", ["l"], "forall(lambda i=Int: forall(lambda j=Int: implies(0 <= i and i < j and j < len(l), not same_object(seq_at(l, i), seq_at(l, j)))))")
specfun("prefix_kept", ["l", "n"], "forall(lambda i=Int: implies(0 <= i and i < n, same_object(seq_at(l, i), old(seq_at(l, i)))))")
specfun("has_handler", ["l", "h"], "exists(lambda i=Int: 0 <= i and i < len(l) and same_object(seq_at(l, i), h))")
specfun("grew_by_at_most_one", ["l"], "len(l) >= old(len(l)) and len(l) <= old(len(l)) + 1 and prefix_kept(l, old(len(l)))")
contract(ED + "subscribe_all", props=["C12"], types={"event_handler": "Fun", "front_run": "Bool"},
         requires=[("no_dups", "no_dups(self._sniffers_pre) and no_dups(self._sniffers_post)")],
         raises={"AssertionError": [("running", "self._running")]},
         ensures=[("no_dups", "no_dups(self._sniffers_pre) and no_dups(self._sniffers_post)"),
                  ("subscribed", "has_handler(self._sniffers_pre, event_handler) if front_run else has_handler(self._sniffers_post, event_handler)"),
                  ("order_kept", "grew_by_at_most_one(self._sniffers_pre) and grew_by_at_most_one(self._sniffers_post)")],
         modifies=["content(self._sniffers_pre)", "content(self._sniffers_post)"])
specfun("handlers_wf", ["d"], "forall(lambda s=EventSource: implies(s in d._event_handlers, no_dups(d._event_handlers[s]))) and "
        "forall(lambda s1=EventSource: forall(lambda s2=EventSource: implies((s1 in d._event_handlers) and (s2 in d._event_handlers) and not same_object(s1, s2), "
        "not same_object(d._event_handlers[s1], d._event_handlers[s2]))))")
contract(ED + "subscribe", props=["C12"], types={"event_handler": "Fun"},
         requires=[("no_dups", "handlers_wf(self)")],
         raises={"AssertionError": [("running", "self._running")]},
         ensures=[("no_dups", "handlers_wf(self)"),
                  ("source_known", "(source in self._event_mux._prefetched_events) and (source in self._event_handlers)"),
                  ("subscribed", "has_handler(self._event_handlers[source], event_handler)"),
                  ("order_kept", "implies(old(source in self._event_handlers), same_object(self._event_handlers[source], old(self._event_handlers[source])) "
                                 "and grew_by_at_most_one(self._event_handlers[source]))"),
                  ("first", "implies(not old(source in self._event_handlers), len(self._event_handlers[source]) == 1)"),
                  ("others_kept", "forall(lambda s=EventSource: implies(old(s in self._event_handlers) and not same_object(s, source), "
                                  "(s in self._event_handlers) and same_object(self._event_handlers[s], old(self._event_handlers[s])) "
                                  "and len(self._event_handlers[s]) == old(len(self._event_handlers[s])) and prefix_kept(self._event_handlers[s], len(self._event_handlers[s]))))"),
                  ("producer_registered", "implies(not_none(source.producer), source.producer in self._producers)")],
         modifies=["content(self._event_mux._prefetched_events)", "content(self._event_handlers)",
                   "content(self._event_handlers[source])", "content(self._producers)"])

# C12: "running front-running catch-all handlers first, then the source's handlers started in subscription order, then the
# other catch-all handlers" -- ghost trace of the gathered batches (each batch = one list, elements in list order;
# asyncio.gather starts its children in argument order: assumed asyncio contract)
contract(ED + "_dispatch_event", props=["C12", "C14", "C15", "C03"],
         requires=[("clock_is_event_time", "implies(typeis(self, 'BacktestingDispatcher'), not_none(self._last_dt) and event_dispatch.event.when <= self._last_dt)"),
                   ("due", "implies(typeis(self, 'RealtimeDispatcher'), event_dispatch.event.when <= clock('utc'))")],
         ensures=[("stages", "stages_in_order('_call_event_handler', event_dispatch.event, self._sniffers_pre, event_dispatch.handlers, self._sniffers_post)")],
         may_suspend=True, raises={"CancelledError": []}, modifies=STOP_MOD, **DISP_RELY_NOSRC)

# ---------------------------------------------------------------------------------------------------------------------
# BacktestingDispatcher (C12 clock / order, C13 scheduled jobs, C03 pass structure)
# rely (default TaskPool model): the pool and the clock belong to the dispatch loop; handlers may schedule, stop, push events
# ---------------------------------------------------------------------------------------------------------------------
BD = D + "BacktestingDispatcher."
specfun("pool_idle", ["d"], "tp_wf(d._handlers_task_pool) and len(d._handlers_task_pool._tasks) == 0")
POOL_MOD = ["content(self._handlers_task_pool._tasks)", "content(self._handlers_task_pool._done)"]
contract(BD + "now", props=["C12"], returns="DT", raises={"Error": [("no_clock", "is_none(self._last_dt)")]},
         ensures=[("clock", "not_none(self._last_dt) and result == self._last_dt")], modifies=[])
contract(BD + "now_available", props=["C12"], returns="Bool", ensures=[("def", "result == not_none(self._last_dt)")], modifies=[])
contract(BD + "_set_now", props=["C12"], types={"now": "DT"},
         raises={"AssertionError": [("backwards", "not_none(self._last_dt) and now < self._last_dt")]},
         ensures=[("set", "self._last_dt == now")], modifies=["self._last_dt"])
CLOCK_MONOTONE = ("clock_never_backwards", "implies(not_none(old(self._last_dt)), not_none(self._last_dt) and self._last_dt >= old(self._last_dt))")
CLOCK_BOUND = ("clock_not_past_dt", "implies(not_none(self._last_dt), (not_none(old(self._last_dt)) and self._last_dt == old(self._last_dt)) or self._last_dt <= dt)")
contract(BD + "_dispatch_scheduled", props=["C13", "C12"], types={"dt": "DT"},
         requires=[("pool_idle", "pool_idle(self)")],
         ensures=[# C13: every job due at or before dt has been taken out of the queue (and handed to the pool, one at a time)
                  ("drained", "forall(lambda j=ScheduledJob: implies(j in self._scheduler_queue._queue, j.when > dt))"),
                  CLOCK_MONOTONE, CLOCK_BOUND,
                  ("barrier", "pool_idle(self)")],
         may_suspend=True, cancellable=True, raises={"CancelledError": []},
         modifies=["self._last_dt", "content(self._scheduler_queue._queue)"] + POOL_MOD,
         loops={0: dict(invariant=[
             ("pool_idle", "pool_idle(self)"),
             ("peeked", "is_none(next_scheduled_dt) == forall(lambda j=ScheduledJob: not (j in self._scheduler_queue._queue))"),
             ("peeked_min", "implies(not_none(next_scheduled_dt), sq_min(self._scheduler_queue, next_scheduled_dt) and sq_has(self._scheduler_queue, next_scheduled_dt))"),
             ("clock_never_backwards", "implies(not_none(ENTRY(self._last_dt)), not_none(self._last_dt) and self._last_dt >= ENTRY(self._last_dt))"),
             ("clock_not_past_dt", "implies(not_none(self._last_dt), (not_none(ENTRY(self._last_dt)) and self._last_dt == ENTRY(self._last_dt)) or self._last_dt <= dt)")],
             modifies=["self._last_dt", "content(self._scheduler_queue._queue)"] + POOL_MOD)},
         **DISP_RELY)
COLLECTED = ("forall(lambda i=Int: implies(0 <= i and i < len({0}), "
             "let(lambda s=seq_at({0}, i)[0], e=seq_at({0}, i)[1]: old(e in s.pending) and e.when <= dt)))")
contract(BD + "_dispatch_events", props=["C12", "C03"], types={"dt": "DT"},
         requires=[("pool_idle", "pool_idle(self)"),
                   ("not_backwards", "implies(not_none(self._last_dt), dt >= self._last_dt)")],
         ensures=[("clock_is_pass_time", "not_none(self._last_dt) and self._last_dt == dt"),
                  # C12/C03: all handlers of this pass have finished before the clock can move on
                  ("barrier", "pool_idle(self)")],
         # C03: the pass consists of events that existed when it began -- an event published by a handler of this very
         # pass (the exchange re-publishing a bar, an order update) waits for the next pass, whatever the pool size
         site_pre={"push#0": [("no_late_joiners", "old(evnt in source.pending)")]},
         may_suspend=True, cancellable=True, raises={"CancelledError": []},
         modifies=["self._last_dt", "content(self._event_mux._prefetched_events)", "every(EventSource)"] + POOL_MOD,
         loops={0: dict(invariant=[("clock_is_pass_time", "not_none(self._last_dt) and self._last_dt == dt"),
                                   ("pool_wf", "tp_wf(self._handlers_task_pool)"),
                                   ("collected_at_pass_start", "ifdef('events', " + COLLECTED.format("events") + ")")],
                        modifies=["content(self._event_mux._prefetched_events)", "every(EventSource)"] + POOL_MOD),
                # the pass is materialised before anything is awaited: list(pop_while(dt))
                "list(pop_while)": dict(invariant=[
                    ("clock_is_pass_time", "not_none(self._last_dt) and self._last_dt == dt"),
                    ("pool_idle", "pool_idle(self)"),
                    ("nothing_published_yet", "forall(lambda s=EventSource: forall(lambda e=Event: (e in s.pending) == old(e in s.pending)))"),
                    ("collected_at_pass_start", COLLECTED.format("RESULT"))],
                    modifies=["content(self._event_mux._prefetched_events)", "every(EventSource)", "content(RESULT)"])},
         **DISP_RELY)
contract(BD + "_dispatch_loop", props=["C12", "C13"],
         requires=[("pool_idle", "pool_idle(self)")],
         ensures=[("stopped", "self._stopped"), CLOCK_MONOTONE],
         may_suspend=True, cancellable=True,
         # the assert at the top of the loop is the property's hypothesis (sources yield non-decreasing times)
         raises={"CancelledError": [], "AssertionError": []},
         modifies=["self._last_dt", "content(self._scheduler_queue._queue)", "content(self._event_mux._prefetched_events)",
                   "every(EventSource)"] + POOL_MOD + STOP_MOD,
         loops={0: dict(invariant=[("pool_idle", "pool_idle(self)"),
                                   ("clock_never_backwards", "implies(not_none(ENTRY(self._last_dt)), not_none(self._last_dt) and self._last_dt >= ENTRY(self._last_dt))")],
                        modifies=["self._last_dt", "content(self._scheduler_queue._queue)", "content(self._event_mux._prefetched_events)",
                                  "every(EventSource)"] + POOL_MOD + STOP_MOD)},
         **DISP_RELY)

# ---------------------------------------------------------------------------------------------------------------------
# RealtimeDispatcher (C15 safety clauses; C14 bounded concurrency under concurrent pushers)
# rely: DISP_RELY plus the @shared TaskPool model (the two pushers and the idle pushes run concurrently)
# ---------------------------------------------------------------------------------------------------------------------
RD = D + "RealtimeDispatcher."
RT_RELY = dict(
    rely_havoc=DISP_RELY["rely_havoc"] + ["content(self._handlers_task_pool._tasks)", "content(self._handlers_task_pool._done)"],
    rely=DISP_RELY["rely"] + [("pool_bounded", "len(self._handlers_task_pool._tasks) <= self._handlers_task_pool._max_size")],
    callee_variant="shared")
contract(RD + "now", props=["C15"], returns="DT", ensures=[("clock", "result >= old(clock('utc'))")], modifies=[])
contract(RD + "_push_scheduled", props=["C15", "C14"], types={"dt": "DT"},
         requires=[("pool_wf", "tp_wf(self._handlers_task_pool)"), ("not_future", "dt <= clock('utc')")],
         ensures=[("pool_wf", "tp_wf(self._handlers_task_pool)"),
                  ("due_jobs_taken", "forall(lambda j=ScheduledJob: implies(j in self._scheduler_queue._queue, j.when > dt))")],
         may_suspend=True, cancellable=True, raises={"CancelledError": []},
         modifies=["content(self._scheduler_queue._queue)"] + POOL_MOD,
         loops={0: dict(invariant=[("pool_wf", "tp_wf(self._handlers_task_pool)")],
                        modifies=["content(self._scheduler_queue._queue)"] + POOL_MOD)},
         **RT_RELY)
PREV_MONOTONE = ("forall(lambda s=EventSource: implies({0}(s in self._prev_event_dt), (s in self._prev_event_dt) "
                 "and self._prev_event_dt[s] >= {0}(self._prev_event_dt[s])))")
contract(RD + "_push_events", props=["C15", "C14"], types={"dt": "DT"},
         requires=[("pool_wf", "tp_wf(self._handlers_task_pool)"), ("not_future", "dt <= clock('utc')")],
         ensures=[("pool_wf", "tp_wf(self._handlers_task_pool)"),
                  # per source the time of the last delivered event never decreases: an older event is dropped
                  ("per_source_order", PREV_MONOTONE.format("old"))],
         may_suspend=True, cancellable=True, raises={"CancelledError": []},
         modifies=["content(self._prev_event_dt)", "content(self._event_mux._prefetched_events)", "every(EventSource)"] + POOL_MOD,
         loops={0: dict(invariant=[("pool_wf", "tp_wf(self._handlers_task_pool)"),
                                   ("per_source_order", PREV_MONOTONE.format("ENTRY"))],
                        modifies=["content(self._prev_event_dt)", "content(self._event_mux._prefetched_events)", "every(EventSource)"] + POOL_MOD)},
         **RT_RELY)
# C15: "idle handlers run only when nothing is being handled" -- the precondition is demanded at the call site
contract(RD + "_on_idle", props=["C15", "C14"], may_suspend=True, cancellable=True,
         requires=[("pool_is_idle", "len(self._handlers_task_pool._tasks) == 0"), ("pool_wf", "tp_wf(self._handlers_task_pool)")],
         ensures=[("pool_wf", "tp_wf(self._handlers_task_pool)"),
                  # C14 bounded concurrency: idle handlers are started through the task pool, never awaited directly
                  ("idle_handlers_go_through_the_pool", "implies(len(self._idle_handlers) > 0, gathered_count('push', self._idle_handlers) == 1)")],
         raises={"CancelledError": []}, modifies=POOL_MOD, **RT_RELY)
contract(RD + "_dispatch_loop", props=["C15", "C14"],
         requires=[("pool_wf", "tp_wf(self._handlers_task_pool)")],
         ensures=[("stopped", "self._stopped")],
         may_suspend=True, cancellable=True, raises={"CancelledError": []},
         modifies=["content(self._scheduler_queue._queue)", "content(self._prev_event_dt)", "content(self._event_mux._prefetched_events)",
                   "every(EventSource)"] + POOL_MOD,
         loops={0: dict(invariant=[("pool_wf", "tp_wf(self._handlers_task_pool)")],
                        modifies=["content(self._scheduler_queue._queue)", "content(self._prev_event_dt)",
                                  "content(self._event_mux._prefetched_events)", "every(EventSource)"] + POOL_MOD)},
         **RT_RELY)

# ---------------------------------------------------------------------------------------------------------------------
# TaskGroup enter / exit (C14): leaving a group waits for / cancels everything it started
# ---------------------------------------------------------------------------------------------------------------------
contract(TG + "__aenter__", props=["C14"], returns="TaskGroup", ensures=[("self", "same_object(result, self)")], modifies=[])
specfun("tg_all_finished", ["g"], "forall(lambda i=Int: implies(0 <= i and i < len(g._tasks), seq_at(g._tasks, i).finished))")
contract(TG + "__aexit__", props=["C14"], types={"exc_type": "Opt[Any]", "exc_value": "Opt[Any]", "traceback": "Opt[Any]"},
         # C14: leaving a task group -- normally or not -- waits for / cancels every task it started: afterwards all finished
         ensures=[("all_finished", "tg_all_finished(self)"), ("exiting", "self._exiting")],
         raises={"Exception": [("all_finished", "tg_all_finished(self)")], "CancelledError": []},
         may_suspend=True, cancellable="once",
         modifies=["self._exiting", "every(Task, 'cancel_requested')"])

