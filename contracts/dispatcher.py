"""core.dispatcher / core.helpers / core.event / core.logs (C03, C12, C13, C14, C15)."""
from pyvc.contracts import contract, specfun

D = "basana.core.dispatcher."
H = "basana.core.helpers."

# ---------------------------------------------------------------------------------------------------------------------
# SchedulerQueue (C13): abstract view = the set of queued ScheduledJob objects (assumed heapq contract, see registry)
# ---------------------------------------------------------------------------------------------------------------------
SQ = D + "SchedulerQueue."
specfun("sq_min", ["q", "t"], "forall(lambda j=ScheduledJob: implies(j in q._queue, t <= j.when))")
specfun("sq_max", ["q", "t"], "forall(lambda j=ScheduledJob: implies(j in q._queue, j.when <= t))")
specfun("sq_has", ["q", "t"], "exists(lambda j=ScheduledJob: (j in q._queue) and j.when == t)")
contract(SQ + "__init__", props=["C13"], ensures=[("empty", "forall(lambda j=ScheduledJob: not (j in self._queue))")], modifies=["self"])
contract(SQ + "push", props=["C13"], types={"when": "DT"},
         ensures=[("added", "exists(lambda j=ScheduledJob: fresh(j) and j.when == when and (j in self._queue) "
                            "and forall(lambda o=ScheduledJob: (o in self._queue) == (old(o in self._queue) or same_object(o, j))))")],
         modifies=["content(self._queue)"])
contract(SQ + "peek_next_event_dt", props=["C13", "C15"], returns="Opt[DT]", modifies=[],
         ensures=[("none_iff_empty", "is_none(result) == forall(lambda j=ScheduledJob: not (j in self._queue))"),
                  ("minimum", "implies(not_none(result), sq_min(self, result) and sq_has(self, result))")])
# statement-derived (C13: "including jobs scheduled for after the last event, whatever order they were scheduled in"):
# the bound used for the final drain is at or after every queued job
contract(SQ + "peek_last_event_dt", props=["C13"], returns="Opt[DT]", modifies=[],
         ensures=[("none_iff_empty", "is_none(result) == forall(lambda j=ScheduledJob: not (j in self._queue))"),
                  ("maximum", "implies(not_none(result), sq_max(self, result))")])
contract(SQ + "pop", props=["C13", "C15"], returns="Tuple[DT,Fun]",
         requires=[("nonempty", "exists(lambda j=ScheduledJob: j in self._queue)")],
         ensures=[("removed_min", "exists(lambda j=ScheduledJob: old(j in self._queue) and not (j in self._queue) and j.when == result[0] "
                                  "and forall(lambda o=ScheduledJob: implies(not same_object(o, j), (o in self._queue) == old(o in self._queue))))"),
                  ("minimum", "forall(lambda o=ScheduledJob: implies(old(o in self._queue), result[0] <= o.when))")],
         modifies=["content(self._queue)"])

# ---------------------------------------------------------------------------------------------------------------------
# logs.backtesting_log_mode (C14: "Whatever way a run ends, process-wide logging afterwards behaves as it did before")
# verified as a context manager: the with-body is an arbitrary suspension that ends normally or raises
# ---------------------------------------------------------------------------------------------------------------------
contract("basana.core.logs.backtesting_log_mode", props=["C14"], types={"dispatcher": "EventDispatcher"},
         ensures=[("factory_restored", "log_factory_restored()")],
         raises={"Exception": [("factory_restored", "log_factory_restored()")],
                 "CancelledError": [("factory_restored", "log_factory_restored()")]},
         modifies=[])

# ---------------------------------------------------------------------------------------------------------------------
# helpers.TaskPool (C14 bounded concurrency / no internal error; C12, C13 barrier `wait()`)
# Two interference models (rely = what other coroutines may do to the pool while this one is suspended):
#   default   the pool is driven by one coroutine (the backtesting dispatch loop): nobody else touches it
#   @shared   several coroutines push into / wait on the pool concurrently (realtime: gather(_push_scheduled,
#             _push_events), the gathered idle pushes): the others run push/_wait_impl themselves, so `_tasks` may lose
#             and gain members, bounded by `_max_size`
# ---------------------------------------------------------------------------------------------------------------------
TP = H + "TaskPool."
specfun("tp_wf", ["p"], "p._max_size > 0 and len(p._tasks) <= p._max_size")
SHARED = dict(variant="shared", rely_havoc=["content(self._tasks)", "content(self._done)"],
              rely=[("bounded", "len(self._tasks) <= self._max_size")])
contract(TP + "__init__", props=["C14"], raises={"AssertionError": [("bad_size", "size <= 0")]},
         ensures=[("wf", "tp_wf(self)"), ("empty", "len(self._tasks) == 0 and len(self._done) == 0 and self._max_size == size")],
         modifies=["self"])
contract(TP + "idle", props=["C15"], returns="Bool", ensures=[("def", "result == (len(self._tasks) == 0)")], modifies=[])
contract(TP + "pop_done", props=["C14"], returns="List[Task]",
         ensures=[("moved", "same_object(result, old(self._done)) and len(self._done) == 0")], modifies=["self._done"])
contract(TP + "cancel", props=["C14"],
         ensures=[("all_requested", "forall(lambda t=Task: implies(t in self._tasks, t.finished or t.cancel_requested))")],
         modifies=["every(Task, 'cancel_requested')"],
         loops={0: dict(invariant=[("seen", "forall(lambda t=Task: implies(t in SEEN, t.finished or t.cancel_requested))")],
                        modifies=["every(Task, 'cancel_requested')"])})
WAIT_LOOP_DEFAULT = {0: dict(invariant=[
    ("rest", "forall(lambda t=Task: (t in self._tasks) == (ENTRY(t in self._tasks) and not (t in SEEN)))"),
    ("count", "len(self._tasks) + card(SEEN) == ENTRY(len(self._tasks))")],
    modifies=["content(self._tasks)", "content(self._done)"])}
WAIT_LOOP_SHARED = {0: dict(invariant=[("bound", "len(self._tasks) <= ENTRY(len(self._tasks))")],
                            modifies=["content(self._tasks)", "content(self._done)"])}
for var, kw, loops_ in ((None, {}, WAIT_LOOP_DEFAULT), ("shared", SHARED, WAIT_LOOP_SHARED)):
    single = var is None
    contract(TP + "_wait_impl", props=["C14"], types={"timeout": "Opt[Real]", "return_when": "Str"}, returns="Bool",
             requires=[("wf", "tp_wf(self)")], may_suspend=True, cancellable=True,
             ensures=[("wf", "tp_wf(self)")] + ([
                 ("only_removes", "forall(lambda t=Task: implies(t in self._tasks, old(t in self._tasks)))"),
                 ("removed_finished", "forall(lambda t=Task: implies(old(t in self._tasks) and not (t in self._tasks), t.finished))"),
                 ("barrier", "implies(is_none(timeout) and return_when == 'ALL_COMPLETED', len(self._tasks) == 0)"),
                 ("progress", "implies(is_none(timeout) and old(len(self._tasks)) > 0, len(self._tasks) < old(len(self._tasks)))"),
             ] if single else []),
             # C14: never an internal error (KeyError from set.remove): only the caller's cancellation may escape
             raises={"CancelledError": []},
             modifies=["content(self._tasks)", "content(self._done)"], loops=loops_, **kw)
    contract(TP + "wait", props=["C14", "C12", "C13"], types={"timeout": "Opt[Real]"}, returns="Bool",
             requires=[("wf", "tp_wf(self)")], may_suspend=True, cancellable=True,
             ensures=[("wf", "tp_wf(self)")] + ([
                 ("only_removes", "forall(lambda t=Task: implies(t in self._tasks, old(t in self._tasks)))"),
                 ("barrier", "implies(is_none(timeout), len(self._tasks) == 0)")] if single else []),
             raises={"CancelledError": []},
             modifies=["content(self._tasks)", "content(self._done)"], **kw)
    contract(TP + "push", props=["C14"], types={"coroutine": "Any"},
             requires=[("wf", "tp_wf(self)")], may_suspend=True, cancellable=True,
             ensures=[("bounded", "tp_wf(self)"),
                      ("added", "exists(lambda t=Task: fresh(t) and (t in self._tasks))")] + ([
                 ("others_from_before", "forall(lambda t=Task: implies(t in self._tasks, fresh(t) or old(t in self._tasks)))")] if single else []),
             raises={"CancelledError": []},
             modifies=["content(self._tasks)", "content(self._done)"],
             loops={0: dict(invariant=[("wf", "tp_wf(self)")] + ([
                 ("subset", "forall(lambda t=Task: implies(t in self._tasks, ENTRY(t in self._tasks)))")] if single else []),
                 modifies=["content(self._tasks)", "content(self._done)"])}, **kw)
