"""Class / enum / value-type declarations: the shapes of the objects the contracts talk about."""
from pyvc.vtypes import REG

B = "basana."
REG.aliases["ValueMapDict"] = "Dict[Str,Real]"

REG.enum("OrderOperation", B + "core.enums.OrderOperation", {"BUY": 100, "SELL": 101})
REG.enum("OrderState", B + "backtesting.orders.OrderState", {"OPEN": 100, "COMPLETED": 101, "CANCELED": 102})

REG.val("Pair", B + "core.pair.Pair", [("base_symbol", "Str"), ("quote_symbol", "Str")])
REG.val("PairInfo", B + "core.pair.PairInfo", [("base_precision", "Int"), ("quote_precision", "Int")])
REG.val("SymbolInfo", B + "backtesting.config.SymbolInfo", [("precision", "Int")])

REG.klass("ValueMap", B + "backtesting.value_map.ValueMap", bases=["Dict[Str,Real]"])
