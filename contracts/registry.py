"""Class / enum / value-type declarations: the shapes of the objects the contracts talk about."""
from pyvc.vtypes import REG

B = "basana."
REG.aliases["ValueMapDict"] = "Dict[Str,Real]"
REG.unbounded.update({"avail", "granted"})

REG.enum("OrderOperation", B + "core.enums.OrderOperation", {"BUY": 100, "SELL": 101})
REG.enum("OrderState", B + "backtesting.orders.OrderState", {"OPEN": 100, "COMPLETED": 101, "CANCELED": 102})

REG.val("Pair", B + "core.pair.Pair", [("base_symbol", "Str"), ("quote_symbol", "Str")])
REG.val("PairInfo", B + "core.pair.PairInfo", [("base_precision", "Int"), ("quote_precision", "Int")])
REG.val("SymbolInfo", B + "backtesting.config.SymbolInfo", [("precision", "Int")])

REG.klass("ValueMap", B + "backtesting.value_map.ValueMap", bases=["Dict[Str,Real]"])

# --- backtesting: config ------------------------------------------------------------------------------------------
REG.klass("Config", B + "backtesting.config.Config",
          fields={"_symbol_info": "Dict[Str,Val:SymbolInfo]", "_default_symbol_info": "Opt[Val:SymbolInfo]",
                  "_pair_info": "Dict[Val:Pair,Val:PairInfo]", "_default_pair_info": "Opt[Val:PairInfo]"},
          ghost={"gp": "MMap[Val:Pair,Val:PairInfo]", "gs": "MMap[Str,Val:SymbolInfo]"})

# --- backtesting: account balances --------------------------------------------------------------------------------
# ghost `account`: the AccountBalances the rule was pushed onto (rules judge a candidate against that account)
REG.klass("UpdateRule", B + "backtesting.account_balances.UpdateRule", abstract=True, ghost={"account": "AccountBalances"})
REG.klass("NonZero", B + "backtesting.account_balances.NonZero", bases=["UpdateRule"])
REG.klass("ValidHold", B + "backtesting.account_balances.ValidHold", bases=["UpdateRule"])
REG.klass("AccountBalances", B + "backtesting.account_balances.AccountBalances",
          fields={"balances": "ValueMap", "holds": "ValueMap", "borrowed": "ValueMap",
                  "_update_rules": "List[UpdateRule]"})

# --- backtesting: orders -------------------------------------------------------------------------------------------
REG.klass("Fill", B + "backtesting.orders.Fill",
          fields={"when": "DT", "balance_updates": "Dict[Str,Real]", "fees": "Dict[Str,Real]"})
REG.klass("OrderInfo", B + "backtesting.orders.OrderInfo",
          fields={"id": "Id", "is_open": "Bool", "operation": "OrderOperation", "amount": "Real",
                  "amount_filled": "Real", "amount_remaining": "Real", "quote_amount_filled": "Real",
                  "fees": "Dict[Str,Real]", "limit_price": "Opt[Real]", "stop_price": "Opt[Real]",
                  "loan_ids": "List[Id]"})
REG.klass("ExchObj", B + "backtesting.helpers.ExchangeObjectProto", abstract=True)
REG.klass("Order", B + "backtesting.orders.Order", abstract=True, bases=["ExchObj"],
          fields={"_id": "Id", "_operation": "OrderOperation", "_pair": "Val:Pair", "_amount": "Real",
                  "_state": "OrderState", "_balance_updates": "ValueMap", "_fees": "ValueMap",
                  "_fills": "List[Fill]", "_auto_borrow": "Bool", "_auto_repay": "Bool", "_loan_ids": "Set[Id]",
                  # declared at the base so that the base contract of get_balance_updates can name it in `modifies`
                  "_stop_price_hit": "Bool"})
REG.klass("MarketOrder", B + "backtesting.orders.MarketOrder", bases=["Order"])
REG.klass("LimitOrder", B + "backtesting.orders.LimitOrder", bases=["Order"], fields={"_limit_price": "Real"})
REG.klass("StopOrder", B + "backtesting.orders.StopOrder", bases=["Order"], fields={"_stop_price": "Real"})
REG.klass("StopLimitOrder", B + "backtesting.orders.StopLimitOrder", bases=["Order"],
          fields={"_stop_price": "Real", "_limit_price": "Real"})

# --- backtesting: fees ---------------------------------------------------------------------------------------------
REG.klass("FeeStrategy", B + "backtesting.fees.FeeStrategy", abstract=True)
REG.klass("NoFee", B + "backtesting.fees.NoFee", bases=["FeeStrategy"])
REG.klass("Percentage", B + "backtesting.fees.Percentage", bases=["FeeStrategy"],
          fields={"_percentage": "Real", "_min_fee": "Real"})

# --- core: token bucket -------------------------------------------------------------------------------------------
REG.klass("TokenBucketLimiter", B + "core.token_bucket.TokenBucketLimiter",
          fields={"_tokens_per_period": "Real", "_period_duration": "Real", "_tokens": "Real", "_last": "Real",
                  "_capacity": "Real"})

# --- core: bars ---------------------------------------------------------------------------------------------------
REG.klass("Event", B + "core.event.Event", fields={"when": "DT"})
REG.klass("Bar", B + "core.bar.Bar",
          fields={"datetime": "DT", "pair": "Val:Pair", "open": "Real", "high": "Real", "low": "Real", "close": "Real",
                  "volume": "Real"})
REG.klass("BarEvent", B + "core.bar.BarEvent", bases=["Event"], fields={"bar": "Bar"})

# --- backtesting: liquidity ---------------------------------------------------------------------------------------
# ghost `avail`: what available_liquidity returns now; ghost `used`: base amount taken since the last on_bar
REG.klass("LiquidityStrategy", B + "backtesting.liquidity.LiquidityStrategy", abstract=True,
          ghost={"avail": "Real", "used": "Real", "granted": "Real", "infinite": "Bool"})
REG.klass("InfiniteLiquidity", B + "backtesting.liquidity.InfiniteLiquidity", bases=["LiquidityStrategy"])
REG.klass("VolumeShareImpact", B + "backtesting.liquidity.VolumeShareImpact", bases=["LiquidityStrategy"],
          fields={"_volume_limit_pct": "Real", "_price_impact_pct": "Real", "_total_liquidity": "Real",
                  "_used_liquidity": "Real"})

# --- backtesting: containers (generic over the element class) -------------------------------------------------------
REG.klass("ExchangeObjectContainer", B + "backtesting.helpers.ExchangeObjectContainer", params={"T": "ExchObj"},
          fields={"_items": "Dict[Id,$T]", "_open_items": "List[$T]", "_reindex_every": "Int", "_reindex_counter": "Int"},
          # ghost: position of every open registered item in _open_items (replaces an existential in the invariant)
          ghost={"pos": "MMap[$T,Int]"})
REG.klass("OrderContainer", B + "backtesting.helpers.ExchangeObjectContainer", bases=["ExchangeObjectContainer"],
          params={"T": "Order"})

# --- core: events / dispatcher (fields used by the backtesting exchange) ---------------------------------------------
REG.klass("Producer", B + "core.event.Producer")
# ghost `pending`: the events the source has produced so far (grows when events are pushed / arrive; never shrinks).
# pop() only ever returns such an event: "the event existed when the pass began" is stated over this set (C03)
REG.klass("EventSource", B + "core.event.EventSource", abstract=True, fields={"producer": "Opt[Producer]"},
          ghost={"pending": "MSet[Event]"})
REG.klass("FifoQueueEventSource", B + "core.event.FifoQueueEventSource", bases=["EventSource"], fields={"_queue": "List[Event]"})
REG.klass("LazyProxy", B + "core.helpers.LazyProxy", fields={"_factory": "Fun", "_obj": "Opt[FifoQueueEventSource]"})
REG.klass("OrderEvent", B + "backtesting.order_mgr.OrderEvent", bases=["Event"], fields={"order": "OrderInfo"})
# asyncio.Task: opaque; ghost `finished` (monotone: False -> True), `cancel_requested`
REG.klass("Task", None, ghost={"finished": "Bool", "cancel_requested": "Bool"})
REG.klass("ScheduledJob", B + "core.dispatcher.ScheduledJob", fields={"when": "DT", "job": "Fun"})
# the heap list of SchedulerQueue is modelled by its *set* of elements: the assumed heapq contract (heap property kept,
# multiset +-1, heappop / [0] return a minimum) is what the intrinsics implement; [-1] is an arbitrary element
REG.klass("SchedulerQueue", B + "core.dispatcher.SchedulerQueue", fields={"_queue": "Set[ScheduledJob]"})
REG.heap_key["ScheduledJob"] = "when"
REG.klass("EventMultiplexer", B + "core.dispatcher.EventMultiplexer",
          fields={"_prefetched_events": "Dict[EventSource,Opt[Event]]"})
# the multiplexer scans its sources in subscription order: the dict's insertion order is modelled (ghost rank per key)
REG.parse("Dict[EventSource,Opt[Event]]")
REG.ordered.add("Dict[EventSource,Opt[Event]]")
REG.klass("TaskGroup", B + "core.helpers.TaskGroup", fields={"_tasks": "List[Task]", "_exiting": "Bool"})
REG.klass("TaskPool", B + "core.helpers.TaskPool", fields={"_max_size": "Int", "_tasks": "Set[Task]", "_done": "List[Task]"})
REG.klass("EventDispatch", B + "core.dispatcher.EventDispatch", fields={"event": "Event", "handlers": "List[Fun]"})
REG.shared_fields.add("handlers")
REG.klass("EventDispatcher", B + "core.dispatcher.EventDispatcher", abstract=True,
          fields={"_event_handlers": "Dict[EventSource,List[Fun]]", "_sniffers_pre": "List[Fun]", "_sniffers_post": "List[Fun]",
                  "_producers": "Set[Producer]", "_active_tasks": "Opt[TaskGroup]", "_running": "Bool", "_stopped": "Bool",
                  "_scheduler_queue": "SchedulerQueue", "_event_mux": "EventMultiplexer", "_handlers_task_pool": "TaskPool",
                  "stop_on_handler_exceptions": "Bool"})
REG.klass("BacktestingDispatcher", B + "core.dispatcher.BacktestingDispatcher", bases=["EventDispatcher"],
          fields={"_last_dt": "Opt[DT]"})
REG.klass("RealtimeDispatcher", B + "core.dispatcher.RealtimeDispatcher", bases=["EventDispatcher"],
          fields={"_prev_event_dt": "Dict[EventSource,DT]", "idle_sleep": "Real", "_wait_all_timeout": "Opt[Real]",
                  "_idle_handlers": "List[Fun]"})

# --- backtesting: prices, lending -----------------------------------------------------------------------------------
REG.klass("Prices", B + "backtesting.prices.Prices",
          fields={"_bid_ask_spread_pct": "Real", "_config": "Config", "_last_bars": "Dict[Val:Pair,Bar]"})
REG.klass("MarginLoanConditions", B + "backtesting.lending.margin.MarginLoanConditions",
          fields={"interest_symbol": "Str", "interest_percentage": "Real", "interest_period": "TD",
                  "min_interest": "Real", "margin_requirement": "Real"})
REG.klass("Loan", B + "backtesting.lending.base.Loan", abstract=True, bases=["ExchObj"],
          # ghost: the loan asks for no separate collateral (true of MarginLoan, the only Loan in the repo); exactness of
          # hold bookkeeping across several loans is proved for such loans only (no finite sums needed)
          ghost={"no_collateral": "Bool"},
          fields={"_id": "Id", "_borrowed_symbol": "Str", "_borrowed_amount": "Real", "_is_open": "Bool",
                  "_created_at": "DT", "_paid_interest": "ValueMap"})
REG.klass("MarginLoan", B + "backtesting.lending.margin.MarginLoan", bases=["Loan"],
          fields={"_conditions": "MarginLoanConditions"})
REG.klass("LoanInfo", B + "backtesting.lending.base.LoanInfo",
          fields={"id": "Id", "is_open": "Bool", "borrowed_symbol": "Str", "borrowed_amount": "Real",
                  "outstanding_interest": "Dict[Str,Real]", "paid_interest": "Dict[Str,Real]"})
REG.klass("LoanContainer", B + "backtesting.helpers.ExchangeObjectContainer", bases=["ExchangeObjectContainer"],
          params={"T": "Loan"})
REG.klass("LendingCtx", B + "backtesting.lending.base.ExchangeContext",
          fields={"dispatcher": "BacktestingDispatcher", "account_balances": "AccountBalances", "prices": "Prices",
                  "config": "Config"})
REG.klass("LendingStrategy", B + "backtesting.lending.base.LendingStrategy", abstract=True, ghost={"no_collateral": "Bool"})
REG.klass("NoLoans", B + "backtesting.lending.base.NoLoans", bases=["LendingStrategy"])
REG.klass("LoanManager", B + "backtesting.loan_mgr.LoanManager",
          fields={"_loans": "LoanContainer", "_ctx": "LendingCtx", "_lending_strategy": "LendingStrategy",
                  "_collateral_by_loan": "Dict[Id,ValueMap]"})
REG.klass("MarginLoans", B + "backtesting.lending.margin.MarginLoans", bases=["LendingStrategy"],
          fields={"_quote_symbol": "Str", "_conditions": "Dict[Str,MarginLoanConditions]",
                  "_default_conditions": "Opt[MarginLoanConditions]", "_loan_mgr": "Opt[LoanManager]",
                  "_exchange_ctx": "Opt[LendingCtx]"})
REG.klass("CheckMarginLevel", B + "backtesting.lending.margin.CheckMarginLevel", bases=["UpdateRule"],
          fields={"_margin_loans": "MarginLoans"})

# --- backtesting: order manager ---------------------------------------------------------------------------------------
REG.klass("OrderMgrCtx", B + "backtesting.order_mgr.ExchangeContext",
          fields={"dispatcher": "BacktestingDispatcher", "account_balances": "AccountBalances", "prices": "Prices",
                  "fee_strategy": "FeeStrategy", "liquidity_strategy_factory": "Fun", "loan_mgr": "LoanManager",
                  "config": "Config"})
REG.klass("OrderManager", B + "backtesting.order_mgr.OrderManager",
          fields={"_ctx": "OrderMgrCtx", "_liquidity_strategies": "Dict[Val:Pair,LiquidityStrategy]",
                  "_orders": "OrderContainer", "_holds_by_order": "Dict[Id,ValueMap]", "_order_updates": "LazyProxy"},
          # ghost: the last bar event whose matching pass over the open orders has completed (C03: match, then re-publish)
          ghost={"last_bar": "Opt[Event]"})

# --- global ghost state (exists only in contracts) --------------------------------------------------------------------
# ledger[s] = sum over orders of (balance_updates[s] + fees[s])  -  sum over loans of paid_interest[s]
# It is updated (ghost_exit) in the sole writers of those maps: Order.add_fill and Loan.add_paid_interest.
REG.klass("Ghost", None, ghost={"ledger": "MMap[Str,Real]", "init": "MMap[Str,Real]"})

# --- backtesting: requests and the exchange facade --------------------------------------------------------------------
REG.klass("ExchangeOrder", B + "backtesting.requests.ExchangeOrder", abstract=True,
          fields={"_operation": "OrderOperation", "_pair": "Val:Pair", "_amount": "Real", "_auto_borrow": "Bool", "_auto_repay": "Bool"})
REG.klass("MarketOrderReq", B + "backtesting.requests.MarketOrder", bases=["ExchangeOrder"])
REG.klass("LimitOrderReq", B + "backtesting.requests.LimitOrder", bases=["ExchangeOrder"], fields={"_limit_price": "Real"})
REG.klass("StopOrderReq", B + "backtesting.requests.StopOrder", bases=["ExchangeOrder"], fields={"_stop_price": "Real"})
REG.klass("StopLimitOrderReq", B + "backtesting.requests.StopLimitOrder", bases=["ExchangeOrder"],
          fields={"_stop_price": "Real", "_limit_price": "Real"})
REG.klass("Balance", B + "backtesting.exchange.Balance",
          fields={"available": "Real", "total": "Real", "hold": "Real", "borrowed": "Real"})
REG.klass("CreatedOrder", B + "backtesting.exchange.CreatedOrder", fields={"id": "Id"})
REG.klass("CanceledOrder", B + "backtesting.exchange.CanceledOrder", fields={"id": "Id"})
REG.klass("Exchange", B + "backtesting.exchange.Exchange",
          fields={"_dispatcher": "BacktestingDispatcher", "_balances": "AccountBalances",
                  "_bar_event_source": "Dict[Val:Pair,FifoQueueEventSource]", "_config": "Config", "_prices": "Prices",
                  "_loan_mgr": "LoanManager", "_order_mgr": "OrderManager"})

# --- core: live trades -> bars (C19) ------------------------------------------------------------------------------------
REG.klass("RealTimeTradesToBar", B + "core.bar.RealTimeTradesToBar", bases=["FifoQueueEventSource", "Producer"],
          fields={"_pair": "Val:Pair", "_bar_duration": "Int", "_trades": "List[Tuple[DT,Real,Real]]", "_skip_first_bar": "Bool",
                  "_next_trade_ge": "Opt[DT]", "_flush_delay": "Real"})
REG.klass("CsvRowParser", B + "core.event_sources.csv.RowParser", abstract=True)
REG.klass("CommonBarRowParser", B + "external.common.csv.bars.RowParser", bases=["CsvRowParser"],
          fields={"pair": "Val:Pair", "tzinfo": "Any", "timedelta": "TD"})
