"""core.bar: Bar, BarEvent, RealTimeTradesToBar; CSV row parsers (C19)."""
from pyvc.contracts import contract, specfun, class_invariant

B = "basana.core.bar."
specfun("ohlc_ok", ["b"], "b.low <= b.open and b.low <= b.close and b.open <= b.high and b.close <= b.high")
# C19: "Every bar satisfies low <= open, close <= high" -- every Bar goes through this constructor
contract(B + "Bar.__init__", props=["C19"], types={"datetime": "DT", "open": "Real", "high": "Real", "low": "Real", "close": "Real", "volume": "Real"},
         raises={"InvalidBar": [("invalid", "not (low <= open and low <= close and open <= high and close <= high)")]},
         ensures=[("ohlc", "ohlc_ok(self)"),
                  ("fields", "self.datetime == datetime and self.pair == pair and self.open == open and self.high == high "
                             "and self.low == low and self.close == close and self.volume == volume")],
         modifies=["self"])
contract(B + "BarEvent.__init__", props=["C19"], types={"when": "DT"},
         ensures=[("fields", "self.when == when and same_object(self.bar, bar)")],
         modifies=["self"])

# ---------------------------------------------------------------------------------------------------------------------
# RealTimeTradesToBar: trades waiting for their window.  A trade is (when, price, amount), price > 0, amount > 0.
# ---------------------------------------------------------------------------------------------------------------------
RT = B + "RealTimeTradesToBar."
specfun("tw", ["l", "i"], "seq_at(l, i)[0]")
specfun("tp", ["l", "i"], "seq_at(l, i)[1]")
specfun("ta", ["l", "i"], "seq_at(l, i)[2]")
specfun("trades_wf", ["l"], "forall(lambda i=Int: implies(0 <= i and i < len(l), tp(l, i) > 0 and ta(l, i) > 0)) "
                            "and forall(lambda i=Int: forall(lambda j=Int: implies(0 <= i and i <= j and j < len(l), tw(l, i) <= tw(l, j))))")
specfun("rt_wf", ["r"], "r._bar_duration > 0 and trades_wf(r._trades) "
                        "and implies(len(r._trades) > 0, not_none(r._next_trade_ge)) "
                        "and implies(not_none(r._next_trade_ge), forall(lambda i=Int: implies(0 <= i and i < len(r._trades), tw(r._trades, i) <= r._next_trade_ge)))")
contract(RT + "push_trade", props=["C19"], types={"when": "DT", "price": "Real", "amount": "Real"},
         requires=[("wf", "rt_wf(self)"), ("trade", "price > 0 and amount > 0")],
         ensures=[("wf", "rt_wf(self)"),
                  # an in-order trade is stored exactly once, after everything stored before; an older one is dropped (and reported)
                  ("stored_or_dropped", "ite(old(not_none(self._next_trade_ge) and when < self._next_trade_ge), "
                                        "len(self._trades) == old(len(self._trades)), "
                                        "len(self._trades) == old(len(self._trades)) + 1 and tw(self._trades, len(self._trades) - 1) == when "
                                        "and tp(self._trades, len(self._trades) - 1) == price and ta(self._trades, len(self._trades) - 1) == amount)"),
                  ("prefix_kept", "forall(lambda i=Int: implies(0 <= i and i < old(len(self._trades)), tw(self._trades, i) == old(tw(self._trades, i)) "
                                  "and tp(self._trades, i) == old(tp(self._trades, i)) and ta(self._trades, i) == old(ta(self._trades, i))))")],
         modifies=["content(self._trades)", "self._next_trade_ge"])

# window of a flush: [begin, begin + duration).  Statement-derived precondition: _flush(begin, end) is called with the last
# representable instant of that window (datetime has microsecond resolution), so that `when > end` means "later window"
specfun("win_end", ["r", "begin"], "begin + r._bar_duration * 1000000")
# CUT: number of stored trades that belong to this or an earlier window (the list is sorted by time)
FLUSH_INV = [
    ("still_in_or_before", "forall(lambda j=Int: implies(0 <= j and j < IDX, tw(self._trades, j) < win_end(self, begin)))"),
    ("no_future_yet", "is_none(future_trades_begin)"),
    ("volume", "volume == wsum(self._trades, begin, IDX) and volume >= 0"),
    ("empty", "implies(volume == 0, open == 0 and high == 0 and low == 0 and close == 0 "
              "and forall(lambda j=Int: implies(0 <= j and j < IDX, tw(self._trades, j) < begin)))"),
    ("high", "implies(volume != 0, forall(lambda j=Int: implies(0 <= j and j < IDX and tw(self._trades, j) >= begin, tp(self._trades, j) <= high)) "
             "and exists(lambda j=Int: 0 <= j and j < IDX and tw(self._trades, j) >= begin and tp(self._trades, j) == high))"),
    ("low", "implies(volume != 0, forall(lambda j=Int: implies(0 <= j and j < IDX and tw(self._trades, j) >= begin, low <= tp(self._trades, j))) "
            "and exists(lambda j=Int: 0 <= j and j < IDX and tw(self._trades, j) >= begin and tp(self._trades, j) == low))"),
    ("open", "implies(volume != 0, exists(lambda j=Int: 0 <= j and j < IDX and tw(self._trades, j) >= begin and tp(self._trades, j) == open "
             "and forall(lambda k=Int: implies(0 <= k and k < j, tw(self._trades, k) < begin))))"),
    ("close", "implies(volume != 0, IDX > 0 and tw(self._trades, IDX - 1) >= begin and close == tp(self._trades, IDX - 1))"),
    ("trades_kept", "len(self._trades) == ENTRY(len(self._trades))"),
]
contract(RT + "_flush", props=["C19"], types={"begin": "DT", "end": "DT"},
         requires=[("wf", "rt_wf(self)"),
                   ("window", "end == win_end(self, begin) - 1"),
                   ("queue", "forall(lambda i=Int: implies(0 <= i and i < len(self._queue), seq_at(self._queue, i) in self.pending))")],
         ensures=[("wf", "rt_wf(self)"),
                  ("queue", "forall(lambda i=Int: implies(0 <= i and i < len(self._queue), seq_at(self._queue, i) in self.pending))"),
                  # C19 "assigns every in-order trade to exactly one bar": whatever stays stored belongs to a later window ...
                  ("kept_are_later", "forall(lambda i=Int: implies(0 <= i and i < len(self._trades), tw(self._trades, i) >= win_end(self, begin)))"),
                  # ... and every stored trade of a later window stays stored, in order
                  ("later_are_kept", "exists(lambda c=Int: 0 <= c and c <= old(len(self._trades)) and len(self._trades) == old(len(self._trades)) - c "
                                     "and forall(lambda j=Int: implies(0 <= j and j < c, old(tw(self._trades, j)) < win_end(self, begin))) "
                                     "and forall(lambda i=Int: implies(0 <= i and i < len(self._trades), tw(self._trades, i) == old(tw(self._trades, i + c)) "
                                     "and tp(self._trades, i) == old(tp(self._trades, i + c)) and ta(self._trades, i) == old(ta(self._trades, i + c)))))"),
                  ("at_most_one_bar", "len(self._queue) <= old(len(self._queue)) + 1"),
                  ("first_bar_skipped", "not self._skip_first_bar and implies(old(self._skip_first_bar), len(self._queue) == old(len(self._queue)))")],
         # no declared exceptional outcome: the window assert cannot fire and the bar built from the trades is a valid Bar
         modifies=["self._trades", "self._next_trade_ge", "self._skip_first_bar", "content(self._queue)", "self.pending"],
         loops={0: dict(invariant=FLUSH_INV, modifies=[])})

# main(): successive windows tile the time line and every flush gets the last instant of its window
contract(RT + "main", props=["C19"], notes="never-returns; no-refinement-check: the precondition rt_wf is the object's own representation invariant "
         "(established by __init__ and kept by push_trade/_flush), not a strengthening of Producer.main visible to the dispatcher",
         requires=[("wf", "rt_wf(self)"),
                   ("queue", "forall(lambda i=Int: implies(0 <= i and i < len(self._queue), seq_at(self._queue, i) in self.pending))")],
         may_suspend=True, cancellable=True, raises={"CancelledError": []},
         modifies=["self._trades", "self._next_trade_ge", "self._skip_first_bar", "content(self._queue)", "self.pending", "content(self._trades)"],
         # while this coroutine sleeps the websocket task pushes trades and the dispatcher pops bar events
         rely_havoc=["content(self._trades)", "self._next_trade_ge", "content(self._queue)"],
         rely=[("wf", "rt_wf(self)"),
               ("queue", "forall(lambda i=Int: implies(0 <= i and i < len(self._queue), seq_at(self._queue, i) in self.pending))")],
         loops={0: dict(invariant=[("wf", "rt_wf(self)"),
                                   ("queue", "forall(lambda i=Int: implies(0 <= i and i < len(self._queue), seq_at(self._queue, i) in self.pending))"),
                                   ("window", "end == win_end(self, begin) - 1")],
                        modifies=["self._trades", "self._next_trade_ge", "self._skip_first_bar", "content(self._queue)", "self.pending", "content(self._trades)"])})

# ---------------------------------------------------------------------------------------------------------------------
# CSV rows -> bar events (assumed: Decimal(text) = dec(text), strptime(text) = strp(text); malformed text not modelled)
# C19: "one bar event per row with non-zero volume carrying exactly the row's values, timestamped at the bar's start
# plus its period"
# ---------------------------------------------------------------------------------------------------------------------
CSVP = "basana.external.common.csv.bars.RowParser."
contract(CSVP + "parse_row", props=["C19"], types={"row_dict": "Dict[Str,Str]"}, returns="List[Event]",
         ensures=[("zero_volume_skipped", "implies(dec(row_dict['volume']) == 0, len(result) == 0)"),
                  ("one_event", "implies(dec(row_dict['volume']) != 0, len(result) == 1 and typeis(seq_at(result, 0), 'BarEvent'))"),
                  ("faithful", "implies(dec(row_dict['volume']) != 0, let(lambda e=seq_at(result, 0): "
                               "e.when == strp(row_dict['datetime']) + self.timedelta and e.bar.datetime == strp(row_dict['datetime']) "
                               "and e.bar.pair == self.pair and e.bar.open == dec(row_dict['open']) and e.bar.high == dec(row_dict['high']) "
                               "and e.bar.low == dec(row_dict['low']) and e.bar.close == dec(row_dict['close']) "
                               "and e.bar.volume == dec(row_dict['volume']) and ohlc_ok(e.bar)))")],
         raises={"KeyError": [], "InvalidBar": [("inconsistent_row", "not (dec(row_dict['low']) <= dec(row_dict['open']) and dec(row_dict['low']) <= dec(row_dict['close']) "
                                                                     "and dec(row_dict['open']) <= dec(row_dict['high']) and dec(row_dict['close']) <= dec(row_dict['high']))")]},
         modifies=[])
