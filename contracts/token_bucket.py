"""TokenBucketLimiter (C20).  Floats are reals (assumption); time.time() is a monotone ghost clock."""
from pyvc.contracts import contract, specfun

TB = "basana.core.token_bucket.TokenBucketLimiter."

# capacity as the property states it: tokens per period, or the initial tokens if larger (field added by the
# repair of F-C20-1; the `cap` clause of __init__ pins it to the statement's definition).
specfun("tb_wf", ["t"], "t._tokens_per_period > 0 and t._period_duration > 0 and t._capacity >= t._tokens_per_period "
                        "and t._tokens <= t._capacity")
specfun("tb_rate", ["t"], "t._tokens_per_period / t._period_duration")

contract(TB + "__init__", props=["C20"],
         types={"tokens_per_period": "Real", "period_duration": "Real", "initial_tokens": "Real"},
         ensures=[("fields", "self._tokens_per_period == tokens_per_period and self._period_duration == period_duration "
                             "and self._tokens == initial_tokens"),
                  ("cap", "self._capacity == (tokens_per_period if tokens_per_period >= initial_tokens else initial_tokens)"),
                  ("wf", "tb_wf(self)"), ("clock", "self._last <= clock('time')")],
         raises={"AssertionError!": [("bad_args", "not (tokens_per_period > 0 and period_duration > 0 and initial_tokens >= 0)")]},
         modifies=["self"])

contract(TB + "consume", props=["C20"],
         requires=[("wf", "tb_wf(self)"), ("clock", "self._last <= clock('time')")],
         ensures=[
             # statement-derived: refill at `rate` up to the capacity, take one token, debt becomes the wait
             ("level", "self._tokens == (self._capacity if old(self._tokens) + (self._last - old(self._last)) * tb_rate(self) > self._capacity "
                       "else old(self._tokens) + (self._last - old(self._last)) * tb_rate(self)) - 1"),
             ("wait", "result == ((-self._tokens) / tb_rate(self) if self._tokens < 0 else 0)"),
             ("nonneg", "result >= 0"),
             ("last", "self._last >= old(self._last) and self._last == clock('time')"),
             ("wf", "tb_wf(self)"),
             ("config", "self._tokens_per_period == old(self._tokens_per_period) and self._period_duration == old(self._period_duration) and self._capacity == old(self._capacity)")],
         modifies=["self._tokens", "self._last"])

contract(TB + "wait", props=["C20"],
         requires=[("wf", "tb_wf(self)"), ("clock", "self._last <= clock('time')")],
         # wait() must be exactly: one consume(), then sleep what it returned.  Its state clauses are stated at its only
         # suspension point (at_suspend): after that other callers run (rely).
         ensures=[("level", "at_suspend(self._tokens) == (self._capacity if old(self._tokens) + (at_suspend(self._last) - old(self._last)) * tb_rate(self) > self._capacity "
                            "else old(self._tokens) + (at_suspend(self._last) - old(self._last)) * tb_rate(self)) - 1"),
                  ("last", "at_suspend(self._last) >= old(self._last) and at_suspend(self._last) == at_suspend(clock('time'))"),
                  ("slept", "SLEPT == ((-at_suspend(self._tokens)) / tb_rate(self) if at_suspend(self._tokens) < 0 else 0)"),
                  ("wf", "tb_wf(self) and self._last <= clock('time')")],
         rely_havoc=["self._tokens", "self._last"],
         rely=[("others_call_consume", "tb_wf(self) and self._last <= clock('time') and self._last >= old(self._last)")],
         modifies=["self._tokens", "self._last"], may_suspend=True)
