"""backtesting.config.Config: precision look-ups are pure functions of the configuration."""
from pyvc.contracts import contract, specfun, class_invariant

CFG = "basana.backtesting.config.Config."
P = ["C01", "C04", "C06", "C08", "C09", "C11"]

# The configuration is fixed before the backtest starts.  Its look-up functions are mirrored by two ghost maps (gp: pair ->
# PairInfo, gs: symbol -> SymbolInfo) so that client contracts name a precision by a term that does not depend on the
# dict heap; the class invariant ties the ghost maps to the real fields (get_* are verified under it; the set_* methods
# run at set-up time and are not on any property's path).
specfun("cfg_has_pair", ["c", "p"], "p in c.gp")
specfun("cfg_pair_info", ["c", "p"], "c.gp[p]")
specfun("cfg_has_symbol", ["c", "s"], "s in c.gs")
specfun("cfg_symbol_info", ["c", "s"], "c.gs[s]")
class_invariant("Config",
                [("pairs", "forall(lambda p=Pair: (p in self.gp) == real_has_pair(self, p) and implies(p in self.gp, self.gp[p] == real_pair_info(self, p)))"),
                 ("symbols", "forall(lambda s=Str: (s in self.gs) == real_has_symbol(self, s) and implies(s in self.gs, self.gs[s] == real_symbol_info(self, s)))")],
                private=["_symbol_info", "_default_symbol_info", "_pair_info", "_default_pair_info", "gp", "gs"], props=["C08"])

specfun("real_has_pair", ["c", "p"],
        "(p in c._pair_info) or ((p.base_symbol in c._symbol_info) and (p.quote_symbol in c._symbol_info)) "
        "or not_none(c._default_pair_info)")
specfun("real_pair_info", ["c", "p"],
        "ite(p in c._pair_info, c._pair_info[p], "
        "ite((p.base_symbol in c._symbol_info) and (p.quote_symbol in c._symbol_info), "
        "mkval('PairInfo', c._symbol_info[p.base_symbol].precision, c._symbol_info[p.quote_symbol].precision), "
        "c._default_pair_info))")
specfun("real_has_symbol", ["c", "s"], "(s in c._symbol_info) or not_none(c._default_symbol_info)")
specfun("real_symbol_info", ["c", "s"], "ite(s in c._symbol_info, c._symbol_info[s], c._default_symbol_info)")
# "an exchange whose traded symbols have their precision configured": the pair's precisions are those of its symbols
specfun("wf_config", ["c", "p"],
        "cfg_has_pair(c, p) and cfg_has_symbol(c, p.base_symbol) and cfg_has_symbol(c, p.quote_symbol) "
        "and cfg_pair_info(c, p).base_precision == cfg_symbol_info(c, p.base_symbol).precision "
        "and cfg_pair_info(c, p).quote_precision == cfg_symbol_info(c, p.quote_symbol).precision "
        "and cfg_pair_info(c, p).base_precision >= 0 and cfg_pair_info(c, p).quote_precision >= 0 "
        "and p.base_symbol != p.quote_symbol")

contract(CFG + "get_pair_info", props=P, returns="Val:PairInfo", modifies=[],
         ensures=[("has", "cfg_has_pair(self, pair)"), ("functional", "result == cfg_pair_info(self, pair)")],
         raises={"Error!": [("missing", "not cfg_has_pair(self, pair)")]})
contract(CFG + "get_symbol_info", props=P, returns="Val:SymbolInfo", modifies=[],
         ensures=[("has", "cfg_has_symbol(self, symbol)"), ("functional", "result == cfg_symbol_info(self, symbol)")],
         raises={"Error!": [("missing", "not cfg_has_symbol(self, symbol)")]})
