"""Fee strategies (C09)."""
from pyvc.contracts import contract, specfun

F = "basana.backtesting.fees."
P = ["C09", "C01", "C06"]

specfun("order_q", ["o"], "o._pair.quote_symbol")
specfun("order_b", ["o"], "o._pair.base_symbol")
# total fee due for a cumulative traded quote amount x (un-rounded, <= 0 internally)
specfun("pct_total_fee", ["f", "x"], "-(abs(x) * f._percentage / 100 if abs(x) * f._percentage / 100 >= f._min_fee else f._min_fee)")
specfun("pct_wf", ["f"], "f._percentage >= 0 and f._percentage < 100 and f._min_fee >= 0")

# class invariant of a fee strategy (established by its constructor; its fields are never written afterwards)
specfun("fee_wf", ["f"], "implies(typeis(f, 'Percentage'), pct_wf(f))")

FT = {"balance_updates": "Dict[Str,Real]"}

# base contract: pure; fees are debits (<= 0 internally, i.e. never negative as reported); a fresh map is returned
contract(F + "FeeStrategy.calculate_fees", props=P, abstract=True, types=FT, returns="Dict[Str,Real]", modifies=[],
         requires=[("wf", "fee_wf(self)"), ("charged_nonpos", "forall(lambda s=Str: at(order._fees, s) <= 0)")],
         ensures=[("fresh", "fresh(result)"),
                  ("debits", "forall(lambda s=Str: at(result, s) <= 0)"),
                  ("nofee", "implies(typeis(self, 'NoFee'), forall(lambda s=Str: not (s in result)))"),
                  ("pct", "implies(typeis(self, 'Percentage'), forall(lambda s=Str: at(result, s) == pct_pending(self, order, balance_updates, s)) "
                          "and forall(lambda s=Str: (s in result) == (pct_pending(self, order, balance_updates, s) < 0)))")])

specfun("pct_pending", ["f", "o", "bu", "s"],
        "ite(s == order_q(o) and pct_total_fee(f, at(o._balance_updates, order_q(o)) + at(bu, order_q(o))) - at(o._fees, order_q(o)) < 0, "
        "pct_total_fee(f, at(o._balance_updates, order_q(o)) + at(bu, order_q(o))) - at(o._fees, order_q(o)), 0)")

contract(F + "NoFee.calculate_fees", props=P, types=FT, returns="Dict[Str,Real]", modifies=[],
         ensures=[("fresh", "fresh(result)"), ("empty", "forall(lambda s=Str: not (s in result))")])

contract(F + "Percentage.__init__", props=P, types={"percentage": "Real", "min_fee": "Real"},
         ensures=[("wf", "pct_wf(self)"), ("fields", "self._percentage == percentage and self._min_fee == min_fee")],
         raises={"AssertionError!": [("bad", "not (percentage >= 0 and percentage < 100 and min_fee >= 0)")]},
         modifies=["self"])

contract(F + "Percentage.calculate_fees", props=P, types=FT, returns="Dict[Str,Real]", modifies=[],
         requires=[("wf", "pct_wf(self)"), ("charged_nonpos", "forall(lambda s=Str: at(order._fees, s) <= 0)")],
         ensures=[("fresh", "fresh(result)"),
                  # charges total-due minus already-charged, in the quote symbol only, never a refund
                  ("pending", "forall(lambda s=Str: at(result, s) == pct_pending(self, order, balance_updates, s))"),
                  ("dom", "forall(lambda s=Str: (s in result) == (pct_pending(self, order, balance_updates, s) < 0))"),
                  ("debits", "forall(lambda s=Str: at(result, s) <= 0)")])
