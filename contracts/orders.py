"""Orders (C04, C05, C08, C09)."""
from pyvc.contracts import contract, specfun

O = "basana.backtesting.orders."
P = ["C04", "C05", "C08"]

specfun("ob", ["o"], "o._pair.base_symbol")
specfun("oq", ["o"], "o._pair.quote_symbol")
specfun("filled", ["o"], "abs(at(o._balance_updates, o._pair.base_symbol))")
specfun("pending", ["o"], "o._amount - abs(at(o._balance_updates, o._pair.base_symbol))")
specfun("is_buy", ["o"], "o._operation == OrderOperation.BUY")
specfun("st_open", ["o"], "o._state == OrderState.OPEN")
# representation invariant of an order (two-state monotonicity is stated in add_fill / cancel)
specfun("order_wf", ["o"],
        "o._amount > 0 and o._pair.base_symbol != o._pair.quote_symbol "
        "and (at(o._balance_updates, ob(o)) >= 0 and at(o._balance_updates, oq(o)) <= 0 if is_buy(o) "
        "     else at(o._balance_updates, ob(o)) <= 0 and at(o._balance_updates, oq(o)) >= 0) "
        "and filled(o) <= o._amount "
        "and forall(lambda s=Str: at(o._fees, s) <= 0) "
        "and implies(st_open(o), filled(o) < o._amount) "
        "and implies(o._state == OrderState.COMPLETED, filled(o) >= o._amount) "
        "and implies(typeis(o, 'LimitOrder') or typeis(o, 'StopLimitOrder'), o._limit_price > 0) "
        "and implies(typeis(o, 'StopOrder') or typeis(o, 'StopLimitOrder'), o._stop_price > 0) "
        "and not same_object(o._balance_updates, o._fees)")
specfun("bar_wf", ["b"], "b.low > 0 and b.low <= b.open and b.low <= b.close and b.open <= b.high and b.close <= b.high and b.volume >= 0")

GBU_T = {"bar": "Bar", "liquidity_strategy": "LiquidityStrategy"}
GBU_REQ = [("order", "order_wf(self)"), ("open", "st_open(self)"), ("liq", "liq_wf(liquidity_strategy)"), ("bar", "bar_wf(bar)")]
GBU_ENS = [
    ("fresh", "fresh(result)"),
    ("shape", "forall(lambda s=Str: implies(s in result, s == ob(self) or s == oq(self))) and ((ob(self) in result) == (oq(self) in result))"),
    ("amount", "implies(ob(self) in result, abs(at(result, ob(self))) > 0 and abs(at(result, ob(self))) <= pending(self) "
               "and abs(at(result, ob(self))) <= liquidity_strategy.avail)"),
    ("sign", "implies(ob(self) in result, (at(result, ob(self)) > 0 and at(result, oq(self)) < 0) if is_buy(self) "
             "else (at(result, ob(self)) < 0 and at(result, oq(self)) > 0))"),
    ("state", "self._state == old(self._state)"),
    ("latch", "implies(old(self._stop_price_hit), self._stop_price_hit)"),
]

contract(O + "Order.get_balance_updates", props=P, abstract=True, types=GBU_T, returns="Dict[Str,Real]",
         requires=GBU_REQ, ensures=GBU_ENS, modifies=["self._stop_price_hit"])

# fill-or-kill orders never fill partially (C05/C08)
FOK = [("all_or_nothing", "implies(ob(self) in result, abs(at(result, ob(self))) == pending(self))"),
       ("no_liquidity", "implies(pending(self) > liquidity_strategy.avail, not (ob(self) in result))")]

# price clauses, un-rounded (C04).  A = base amount, QA = quote amount of the fill
specfun("A", ["o", "r"], "abs(at(r, ob(o)))")
specfun("QA", ["o", "r"], "abs(at(r, oq(o)))")

contract(O + "MarketOrder.get_balance_updates", props=P, types=GBU_T, returns="Dict[Str,Real]",
         requires=GBU_REQ, modifies=[],
         ensures=GBU_ENS + FOK + [
             ("in_range", "implies(ob(self) in result, bar.low * A(self, result) <= QA(self, result) and QA(self, result) <= bar.high * A(self, result))"),
             ("not_better_than_open", "implies(ob(self) in result, (QA(self, result) >= bar.open * A(self, result)) if is_buy(self) "
                                      "else (QA(self, result) <= bar.open * A(self, result)))"),
             ("complete", "implies(pending(self) <= liquidity_strategy.avail, ob(self) in result)")])

contract(O + "LimitOrder.get_balance_updates", props=P, types=GBU_T, returns="Dict[Str,Real]",
         requires=GBU_REQ, modifies=[],
         ensures=GBU_ENS + [
             ("limit", "implies(ob(self) in result, (QA(self, result) <= self._limit_price * A(self, result)) if is_buy(self) "
                       "else (QA(self, result) >= self._limit_price * A(self, result)))"),
             ("reached", "implies(ob(self) in result, (bar.low <= self._limit_price) if is_buy(self) else (bar.high >= self._limit_price))"),
             ("extreme", "implies(ob(self) in result, (QA(self, result) >= bar.low * A(self, result)) if is_buy(self) "
                         "else (QA(self, result) <= bar.high * A(self, result)))"),
             ("complete", "implies(liquidity_strategy.infinite and ((bar.low <= self._limit_price) if is_buy(self) else (bar.high >= self._limit_price)), "
                          "(ob(self) in result) and A(self, result) == pending(self))")])

contract(O + "StopOrder.get_balance_updates", props=P, types=GBU_T, returns="Dict[Str,Real]",
         requires=GBU_REQ, modifies=[],
         ensures=GBU_ENS + FOK + [
             ("triggered", "implies(ob(self) in result, (bar.high >= self._stop_price) if is_buy(self) else (bar.low <= self._stop_price))"),
             ("in_range", "implies(ob(self) in result, bar.low * A(self, result) <= QA(self, result) and QA(self, result) <= bar.high * A(self, result))"),
             ("not_better_than_stop", "implies(ob(self) in result, (QA(self, result) >= self._stop_price * A(self, result)) if is_buy(self) "
                                      "else (QA(self, result) <= self._stop_price * A(self, result)))"),
             ("complete", "implies(pending(self) <= liquidity_strategy.avail and ((bar.high >= self._stop_price) if is_buy(self) else (bar.low <= self._stop_price)), "
                          "ob(self) in result)")])

SL_PRICE = [
    ("limit", "implies(ob(self) in result, (QA(self, result) <= self._limit_price * A(self, result)) if is_buy(self) "
              "else (QA(self, result) >= self._limit_price * A(self, result)))"),
    ("reached", "implies(ob(self) in result, (bar.low <= self._limit_price) if is_buy(self) else (bar.high >= self._limit_price))"),
    ("extreme", "implies(ob(self) in result, (QA(self, result) >= bar.low * A(self, result)) if is_buy(self) "
                "else (QA(self, result) <= bar.high * A(self, result)))"),
]
contract(O + "StopLimitOrder.get_balance_updates_before_stop_hit", props=P, types=GBU_T, returns="Dict[Str,Real]",
         requires=GBU_REQ + [("not_hit", "not self._stop_price_hit")], modifies=["self._stop_price_hit"],
         ensures=GBU_ENS + SL_PRICE + [
             # the latch is only set in a bar whose range reaches the stop, and a fill needs the latch
             ("latch_set", "self._stop_price_hit == ((bar.high >= self._stop_price) if is_buy(self) else (bar.low <= self._stop_price))"),
             ("fill_needs_latch", "implies(ob(self) in result, self._stop_price_hit)")])
contract(O + "StopLimitOrder.get_balance_updates_after_stop_hit", props=P, types=GBU_T, returns="Dict[Str,Real]",
         requires=GBU_REQ, modifies=[],
         ensures=GBU_ENS + SL_PRICE)
contract(O + "StopLimitOrder.get_balance_updates", props=P, types=GBU_T, returns="Dict[Str,Real]",
         requires=GBU_REQ, modifies=["self._stop_price_hit"],
         ensures=GBU_ENS + SL_PRICE + [
             ("latch", "self._stop_price_hit == (old(self._stop_price_hit) or ((bar.high >= self._stop_price) if is_buy(self) else (bar.low <= self._stop_price)))"),
             ("fill_needs_latch", "implies(ob(self) in result, self._stop_price_hit)")])
