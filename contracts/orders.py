"""Orders (C04, C05, C08, C09)."""
from pyvc.contracts import contract, specfun

O = "basana.backtesting.orders."
P = ["C04", "C05", "C08"]

specfun("ob", ["o"], "o._pair.base_symbol")
specfun("oq", ["o"], "o._pair.quote_symbol")
specfun("filled", ["o"], "abs(at(o._balance_updates, o._pair.base_symbol))")
specfun("pending", ["o"], "o._amount - abs(at(o._balance_updates, o._pair.base_symbol))")
specfun("is_buy", ["o"], "o._operation == OrderOperation.BUY")
specfun("st_open", ["o"], "o._state == OrderState.OPEN")
# representation invariant of an order (two-state monotonicity is stated in add_fill / cancel)
specfun("order_wf", ["o"],
        "o._amount > 0 and o._pair.base_symbol != o._pair.quote_symbol "
        "and (at(o._balance_updates, ob(o)) >= 0 and at(o._balance_updates, oq(o)) <= 0 if is_buy(o) "
        "     else at(o._balance_updates, ob(o)) <= 0 and at(o._balance_updates, oq(o)) >= 0) "
        "and filled(o) <= o._amount "
        "and forall(lambda s=Str: at(o._fees, s) <= 0) "
        "and implies(st_open(o), filled(o) < o._amount) "
        "and implies(o._state == OrderState.COMPLETED, filled(o) >= o._amount) "
        "and implies(typeis(o, 'LimitOrder') or typeis(o, 'StopLimitOrder'), o._limit_price > 0) "
        "and implies(typeis(o, 'StopOrder') or typeis(o, 'StopLimitOrder'), o._stop_price > 0) "
        "and not same_object(o._balance_updates, o._fees)")
specfun("bar_wf", ["b"], "b.low > 0 and b.low <= b.open and b.low <= b.close and b.open <= b.high and b.close <= b.high and b.volume >= 0")

GBU_T = {"bar": "Bar", "liquidity_strategy": "LiquidityStrategy"}
GBU_REQ = [("order", "order_wf(self)"), ("open", "st_open(self)"), ("liq", "liq_wf(liquidity_strategy)"), ("bar", "bar_wf(bar)")]
GBU_ENS = [
    ("fresh", "fresh(result)"),
    ("shape", "forall(lambda s=Str: implies(s in result, s == ob(self) or s == oq(self))) and ((ob(self) in result) == (oq(self) in result))"),
    ("amount", "implies(ob(self) in result, abs(at(result, ob(self))) > 0 and abs(at(result, ob(self))) <= pending(self) "
               "and abs(at(result, ob(self))) <= liquidity_strategy.avail)"),
    ("sign", "implies(ob(self) in result, (at(result, ob(self)) > 0 and at(result, oq(self)) < 0) if is_buy(self) "
             "else (at(result, ob(self)) < 0 and at(result, oq(self)) > 0))"),
    ("state", "self._state == old(self._state)"),
    ("latch", "implies(old(self._stop_price_hit), self._stop_price_hit)"),
]

def _guard(cls, clauses):
    g = " or ".join("typeis(self, '%s')" % c for c in cls)
    return [(("%s_" % cls[0]) + lbl, "implies(%s, %s)" % (g, txt)) for lbl, txt in clauses]


# fill-or-kill orders never fill partially (C05/C08)
FOK = [("all_or_nothing", "implies(ob(self) in result, at(result, ob(self)) == (pending(self) if is_buy(self) else -pending(self)))"),
       ("no_liquidity", "implies(pending(self) > liquidity_strategy.avail, not (ob(self) in result))")]

# price clauses, un-rounded (C04).  A = base amount, QA = quote amount of the fill
specfun("A", ["o", "r"], "abs(at(r, ob(o)))")
specfun("QA", ["o", "r"], "abs(at(r, oq(o)))")

contract(O + "MarketOrder.get_balance_updates", props=P, types=GBU_T, returns="Dict[Str,Real]",
         requires=GBU_REQ, modifies=[],
         ensures=GBU_ENS + FOK + [
             ("in_range", "implies(ob(self) in result, bar.low * A(self, result) <= QA(self, result) and QA(self, result) <= bar.high * A(self, result))"),
             ("not_better_than_open", "implies(ob(self) in result, (QA(self, result) >= bar.open * A(self, result)) if is_buy(self) "
                                      "else (QA(self, result) <= bar.open * A(self, result)))"),
             ("complete", "implies(pending(self) <= liquidity_strategy.avail, ob(self) in result)")])

contract(O + "LimitOrder.get_balance_updates", props=P, types=GBU_T, returns="Dict[Str,Real]",
         requires=GBU_REQ, modifies=[],
         ensures=GBU_ENS + [
             ("limit", "implies(ob(self) in result, (QA(self, result) <= self._limit_price * A(self, result)) if is_buy(self) "
                       "else (QA(self, result) >= self._limit_price * A(self, result)))"),
             ("reached", "implies(ob(self) in result, (bar.low <= self._limit_price) if is_buy(self) else (bar.high >= self._limit_price))"),
             ("extreme", "implies(ob(self) in result, (QA(self, result) >= bar.low * A(self, result)) if is_buy(self) "
                         "else (QA(self, result) <= bar.high * A(self, result)))"),
             ("complete", "implies(liquidity_strategy.infinite and ((bar.low <= self._limit_price) if is_buy(self) else (bar.high >= self._limit_price)), "
                          "(ob(self) in result) and A(self, result) == pending(self))")])

contract(O + "StopOrder.get_balance_updates", props=P, types=GBU_T, returns="Dict[Str,Real]",
         requires=GBU_REQ, modifies=[],
         ensures=GBU_ENS + FOK + [
             ("triggered", "implies(ob(self) in result, (bar.high >= self._stop_price) if is_buy(self) else (bar.low <= self._stop_price))"),
             ("in_range", "implies(ob(self) in result, bar.low * A(self, result) <= QA(self, result) and QA(self, result) <= bar.high * A(self, result))"),
             ("not_better_than_stop", "implies(ob(self) in result, (QA(self, result) >= self._stop_price * A(self, result)) if is_buy(self) "
                                      "else (QA(self, result) <= self._stop_price * A(self, result)))"),
             ("complete", "implies(pending(self) <= liquidity_strategy.avail and ((bar.high >= self._stop_price) if is_buy(self) else (bar.low <= self._stop_price)), "
                          "ob(self) in result)")])

SL_PRICE = [
    ("limit", "implies(ob(self) in result, (QA(self, result) <= self._limit_price * A(self, result)) if is_buy(self) "
              "else (QA(self, result) >= self._limit_price * A(self, result)))"),
    ("reached", "implies(ob(self) in result, (bar.low <= self._limit_price) if is_buy(self) else (bar.high >= self._limit_price))"),
    ("extreme", "implies(ob(self) in result, (QA(self, result) >= bar.low * A(self, result)) if is_buy(self) "
                "else (QA(self, result) <= bar.high * A(self, result)))"),
]
contract(O + "StopLimitOrder.get_balance_updates_before_stop_hit", props=P, types=GBU_T, returns="Dict[Str,Real]",
         requires=GBU_REQ + [("not_hit", "not self._stop_price_hit")], modifies=["self._stop_price_hit"],
         ensures=GBU_ENS + SL_PRICE + [
             # the latch is only set in a bar whose range reaches the stop, and a fill needs the latch
             ("latch_set", "self._stop_price_hit == ((bar.high >= self._stop_price) if is_buy(self) else (bar.low <= self._stop_price))"),
             ("fill_needs_latch", "implies(ob(self) in result, self._stop_price_hit)")])
contract(O + "StopLimitOrder.get_balance_updates_after_stop_hit", props=P, types=GBU_T, returns="Dict[Str,Real]",
         requires=GBU_REQ, modifies=[],
         ensures=GBU_ENS + SL_PRICE)
contract(O + "StopLimitOrder.get_balance_updates", props=P, types=GBU_T, returns="Dict[Str,Real]",
         requires=GBU_REQ, modifies=["self._stop_price_hit"],
         ensures=GBU_ENS + SL_PRICE + [
             ("latch", "self._stop_price_hit == (old(self._stop_price_hit) or ((bar.high >= self._stop_price) if is_buy(self) else (bar.low <= self._stop_price)))"),
             ("fill_needs_latch", "implies(ob(self) in result, self._stop_price_hit)")])

# =======================================================================================================================
# Order state machine (C05): constructor, cancel, add_fill, not_filled, get_order_info
# =======================================================================================================================
INIT_T = {"id": "Id", "amount": "Real", "limit_price": "Real", "stop_price": "Real"}
specfun("order_fresh", ["o", "id", "operation", "pair", "amount", "state", "auto_borrow", "auto_repay"],
        "o._id == id and o._operation == operation and o._pair == pair and o._amount == amount and o._state == state "
        "and o._auto_borrow == auto_borrow and o._auto_repay == auto_repay "
        "and forall(lambda s=Str: not (s in o._balance_updates)) and forall(lambda s=Str: not (s in o._fees)) "
        "and seq_len(o._fills) == 0 and forall(lambda s=Id: not (s in o._loan_ids)) "
        "and fresh(o._balance_updates) and fresh(o._fees) and fresh(o._fills) and fresh(o._loan_ids)")

contract(O + "Order.__init__", props=["C05"], types=INIT_T,
         ensures=[("fields", "order_fresh(self, id, operation, pair, amount, state, auto_borrow, auto_repay)"), ("amount", "amount > 0")],
         raises={"AssertionError!": [("bad", "not (amount > 0)")]}, modifies=["self"])
for cls, extra, cond in (("MarketOrder", "", "amount > 0"),
                         ("LimitOrder", " and self._limit_price == limit_price", "amount > 0 and limit_price > 0"),
                         ("StopOrder", " and self._stop_price == stop_price", "amount > 0 and stop_price > 0"),
                         ("StopLimitOrder", " and self._limit_price == limit_price and self._stop_price == stop_price and not self._stop_price_hit",
                          "amount > 0 and limit_price > 0 and stop_price > 0")):
    contract(O + cls + ".__init__", props=["C05"], types=INIT_T,
             ensures=[("fields", "order_fresh(self, id, operation, pair, amount, state, auto_borrow, auto_repay)" + extra),
                      ("valid", cond)],
             raises={"AssertionError!": [("bad", "not (%s)" % cond)]}, modifies=["self"])

contract(O + "Order.cancel", props=["C05", "C07"],
         requires=[("open", "st_open(self)")],
         ensures=[("canceled", "self._state == OrderState.CANCELED")],
         modifies=["self._state"])

# what a fill must look like (established by OrderManager._process_order from the base contract of get_balance_updates
# + rounding): base and quote of the right sign, not more than what is pending, fees are debits
specfun("fill_ok", ["o", "bu", "fees"],
        "abs(at(bu, ob(o))) > 0 and abs(at(bu, ob(o))) <= pending(o) "
        "and ((at(bu, ob(o)) > 0 and at(bu, oq(o)) <= 0) if is_buy(o) else (at(bu, ob(o)) < 0 and at(bu, oq(o)) >= 0)) "
        "and forall(lambda s=Str: at(fees, s) <= 0)")

contract(O + "Order.add_fill", props=["C05", "C01", "C09"],
         types={"balance_updates": "Dict[Str,Real]", "fees": "Dict[Str,Real]"},
         requires=[("wf", "order_wf(self)"), ("open", "st_open(self)"), ("fill", "fill_ok(self, balance_updates, fees)"),
                   ("noalias", "distinct(self._balance_updates, self._fees, balance_updates, fees)")],
         ensures=[("ledger", "forall(lambda s=Str: at(self._balance_updates, s) == old(at(self._balance_updates, s)) + at(balance_updates, s))"),
                  ("fees", "forall(lambda s=Str: at(self._fees, s) == old(at(self._fees, s)) + at(fees, s))"),
                  # monotone: the filled amount only grows and never exceeds the ordered amount
                  ("monotone", "filled(self) == old(filled(self)) + abs(at(balance_updates, ob(self))) and filled(self) <= self._amount"),
                  ("closes", "self._state == (OrderState.COMPLETED if filled(self) >= self._amount else OrderState.OPEN)"),
                  ("wf", "order_wf(self)"),
                  ("ghost_ledger", "forall(lambda s=Str: GHOST.ledger[s] == old(GHOST.ledger[s]) + at(balance_updates, s) + at(fees, s))"),
                  ("fill_recorded", "seq_len(self._fills) == old(seq_len(self._fills)) + 1 "
                                    "and same_object(seq_at(self._fills, seq_len(self._fills) - 1).balance_updates, balance_updates) "
                                    "and same_object(seq_at(self._fills, seq_len(self._fills) - 1).fees, fees) "
                                    "and seq_at(self._fills, seq_len(self._fills) - 1).when == when")],
         modifies=["content(self._balance_updates)", "content(self._fees)", "self._state", "content(self._fills)", "GHOST.ledger"],
         # ghost ledger: every number recorded on an order enters the ledger (C01)
         ghost_exit=[("GHOST.ledger", "mmap_add(GHOST.ledger, balance_updates, fees)")])

contract(O + "Order.add_loan", props=["C11"], types={"loan_id": "Id"},
         ensures=[("added", "forall(lambda s=Id: (s in self._loan_ids) == (old(s in self._loan_ids) or s == loan_id))")],
         modifies=["content(self._loan_ids)"])

contract(O + "Order.not_filled", props=["C05"], ensures=[("noop", "unchanged(self)")], modifies=[])
for cls in ("MarketOrder", "StopOrder"):
    contract(O + cls + ".not_filled", props=["C05"],
             requires=[("open", "st_open(self)")],
             ensures=[("fill_or_kill", "self._state == OrderState.CANCELED")], modifies=["self._state"])

INFO_ENS = [("fresh", "fresh(result)"),
            ("mirror", "result.id == self._id and result.is_open == st_open(self) and result.operation == self._operation "
                       "and result.amount == self._amount and result.amount_filled == filled(self) "
                       "and result.amount_remaining == pending(self) and result.quote_amount_filled == abs(at(self._balance_updates, oq(self)))"),
            # filled + remaining = amount
            ("sum", "result.amount_filled + result.amount_remaining == result.amount"),
            # fees are reported non-negative, zero entries dropped
            ("fees", "forall(lambda s=Str: at(result.fees, s) == -at(self._fees, s)) and forall(lambda s=Str: (s in result.fees) == ((s in self._fees) and at(self._fees, s) != 0))")]
contract(O + "Order.get_order_info", props=["C05", "C09"], returns="OrderInfo", ensures=INFO_ENS +
         [("no_prices", "is_none(result.limit_price) and is_none(result.stop_price)")], modifies=[])
contract(O + "LimitOrder.get_order_info", props=["C05", "C09"], returns="OrderInfo", ensures=INFO_ENS +
         [("prices", "result.limit_price == self._limit_price and is_none(result.stop_price)")], modifies=[])
contract(O + "StopOrder.get_order_info", props=["C05", "C09"], returns="OrderInfo", ensures=INFO_ENS +
         [("prices", "result.stop_price == self._stop_price and is_none(result.limit_price)")], modifies=[])
contract(O + "StopLimitOrder.get_order_info", props=["C05", "C09"], returns="OrderInfo", ensures=INFO_ENS +
         [("prices", "result.stop_price == self._stop_price and result.limit_price == self._limit_price")], modifies=[])


# The base contract used at dynamic call sites carries, per known order type, the price clauses of that type (each
# override is checked to refine it); an unknown user subclass only promises the generic part.
BASE_EXTRA = (_guard(["MarketOrder"], FOK + [
                  ("in_range", "implies(ob(self) in result, bar.low * A(self, result) <= QA(self, result) and QA(self, result) <= bar.high * A(self, result))"),
                  ("not_better_than_open", "implies(ob(self) in result, (QA(self, result) >= bar.open * A(self, result)) if is_buy(self) else (QA(self, result) <= bar.open * A(self, result)))"),
                  ("complete", "implies(pending(self) <= liquidity_strategy.avail, ob(self) in result)")])
              + _guard(["StopOrder"], FOK + [
                  ("triggered", "implies(ob(self) in result, (bar.high >= self._stop_price) if is_buy(self) else (bar.low <= self._stop_price))"),
                  ("in_range", "implies(ob(self) in result, bar.low * A(self, result) <= QA(self, result) and QA(self, result) <= bar.high * A(self, result))"),
                  ("not_better_than_stop", "implies(ob(self) in result, (QA(self, result) >= self._stop_price * A(self, result)) if is_buy(self) else (QA(self, result) <= self._stop_price * A(self, result)))")])
              + _guard(["LimitOrder", "StopLimitOrder"], SL_PRICE)
              + _guard(["StopLimitOrder"], [("fill_needs_latch", "implies(ob(self) in result, self._stop_price_hit)"),
                                            ("latch", "self._stop_price_hit == (old(self._stop_price_hit) or ((bar.high >= self._stop_price) if is_buy(self) else (bar.low <= self._stop_price)))")])
              + [("others_latch", "implies(not typeis(self, 'StopLimitOrder'), self._stop_price_hit == old(self._stop_price_hit))")])
contract(O + "Order.get_balance_updates", props=P, abstract=True, types=GBU_T, returns="Dict[Str,Real]",
         requires=GBU_REQ, ensures=GBU_ENS + BASE_EXTRA, modifies=["self._stop_price_hit"])
