"""NOT LOADED (not in contracts.MODULES).  Contract of EventDispatcher.run and the producer interface, kept for the record.

It generates 243 paths / 5402 obligations (a cancellation fork at every suspension point times the outcomes of two task
groups); discharging them took more than 16 CPU-hours without finishing, so run() is *not* under contract in the
committed machinery (C14 stays at level `other`; see DESIGN 11).  To try it: add "attic_run" to contracts.MODULES after
"dispatcher" and run `python3-vt -m pyvc.dev EventDispatcher.run`.
"""
from pyvc.contracts import contract, specfun
from contracts.dispatcher import *      # noqa: F401,F403  (ED, EV, TG, RT_RELY, POOL_MOD ...)
from contracts import dispatcher as _d
ED, EV, TG, RT_RELY, POOL_MOD = _d.ED, _d.EV, _d.TG, _d.RT_RELY, _d.POOL_MOD

# ---------------------------------------------------------------------------------------------------------------------
# EventDispatcher.run (C14 lifecycle).  Producers are user objects: interface contracts only.
# ---------------------------------------------------------------------------------------------------------------------
for nm in ("initialize", "main", "finalize"):
    contract(EV + "Producer." + nm, abstract=True, verify=False, props=["C14"], may_suspend=True, modifies=["owned(self)"],
             raises={"Exception": [], "CancelledError": []},
             notes="interface contract of a producer phase: may suspend, may fail, touches only the producer")

RUN_RELY = dict(rely_havoc=RT_RELY["rely_havoc"] + ["self._active_tasks"], rely=RT_RELY["rely"] + [("pool_wf", "tp_wf(self._handlers_task_pool)")],
                callee_variant="shared")
FINALIZED_ONCE = ("every_producer_finalized_once", "gathered_count('finalize', self._producers) == 1")
contract(ED + "run", props=["C14"], types={"stop_signals": "List[Int]"},
         requires=[("pool_wf", "tp_wf(self._handlers_task_pool)")],
         ensures=[FINALIZED_ONCE, ("no_group_left", "is_none(self._active_tasks)")],
         # C14: "by returning, or by raising the producer's own error or the caller's cancellation, never an internal error"
         raises={"Exception": [FINALIZED_ONCE], "CancelledError": [FINALIZED_ONCE, ("not_a_requested_stop", "not self._stopped")],
                 "AssertionError!": [("only_reentry", "old(self._running) or old(not_none(self._active_tasks))")]},
         # C14: "handlers still in flight are cancelled, not awaited": when run() waits for the pool every task in it has
         # finished or has been asked to cancel
         site_pre={"wait#0": [("in_flight_cancelled", "forall(lambda t=Task: implies(t in self._handlers_task_pool._tasks, t.finished or t.cancel_requested))")]},
         may_suspend=True, cancellable="once",
         modifies=["self._running", "self._active_tasks", "every(Task, 'cancel_requested')", "every(TaskGroup)", "every(Producer)"] + POOL_MOD,
         loops={0: dict(invariant=[], modifies=[]),
                1: dict(invariant=[("group", "not tg._exiting and fresh(tg) and same_object(self._active_tasks, tg)")], modifies=["content(tg._tasks)"]),
                2: dict(invariant=[("group", "not tg._exiting and fresh(tg) and same_object(self._active_tasks, tg)")], modifies=["content(tg._tasks)"])},
         **RUN_RELY)
