"""backtesting.helpers: ExchangeObjectContainer (C05) and small helpers."""
from pyvc.contracts import contract, specfun, class_invariant

H = "basana.backtesting.helpers."
C = H + "ExchangeObjectContainer."
P = ["C05", "C01", "C02", "C06", "C07", "C11"]

specfun("is_open_obj", ["x"], "ite(typeis(x, 'Order'), x._state == OrderState.OPEN, x._is_open)")
# representation invariant: _open_items has no duplicates, only registered items, and contains every open item
specfun("cont_keys", ["c"], "c._reindex_every > 0 and forall(lambda k=Id: implies(k in c._items, c._items[k]._id == k))")
specfun("cont_listed", ["c"],
        "forall(lambda i=Int: implies(0 <= i and i < seq_len(c._open_items), "
        "      (seq_at(c._open_items, i)._id in c._items) and same_object(c._items[seq_at(c._open_items, i)._id], seq_at(c._open_items, i))))")
specfun("cont_nodup", ["c"],
        "forall(lambda i=Int, j=Int: implies(0 <= i and i < j and j < seq_len(c._open_items), "
        "      not same_object(seq_at(c._open_items, i), seq_at(c._open_items, j))))")
specfun("cont_pos", ["c"],
        "forall(lambda k=Id: implies((k in c._items) and is_open_obj(c._items[k]), "
        "      0 <= c.pos[c._items[k]] and c.pos[c._items[k]] < seq_len(c._open_items) "
        "      and same_object(seq_at(c._open_items, c.pos[c._items[k]]), c._items[k])))")
specfun("cont_inv", ["c"], "cont_keys(c) and cont_listed(c) and cont_nodup(c) and cont_pos(c)")
# ownership-style class invariant: clients never carry it (private fields are only written here; closing an item
# preserves it -- lemma C05.container.stable)
class_invariant("ExchangeObjectContainer",
                [("keys", "cont_keys(self)"), ("listed", "cont_listed(self)"), ("nodup", "cont_nodup(self)"), ("pos", "cont_pos(self)")],
                private=["_items", "_open_items", "_reindex_every", "_reindex_counter", "pos"], props=["C05"])

specfun("in_cont", ["c", "x"], "(x._id in c._items) and same_object(c._items[x._id], x)")

contract(C + "__init__", props=P,
         ensures=[("empty", "forall(lambda k=Id: not (k in self._items)) and seq_len(self._open_items) == 0")],
         modifies=["self"])

contract(C + "add", props=P, types={"item": "$T"},
         ensures=[("added", "in_cont(self, item)"),
                  ("others", "forall(lambda k=Id: implies(k != item._id, ((k in self._items) == old(k in self._items)) "
                             "and implies(k in self._items, same_object(self._items[k], old(self._items[k])))))"),
                  ("was_new", "not old(item._id in self._items)")],
         raises={"AssertionError!": [("dup", "old(item._id in self._items)"), ("unchanged", "unchanged(self) and content_unchanged(self._items, self._open_items)")]},
         modifies=["content(self._items)", "content(self._open_items)", "self.pos"],
         ghost_exit=[("self.pos", "mmap_put(self.pos, item, seq_len(self._open_items) - 1) if is_open_obj(item) else self.pos")])

contract(C + "get", props=P, types={"id": "Id"}, returns="Opt[$T]", modifies=[],
         ensures=[("lookup", "is_none(result) == (not (id in self._items))"),
                  ("value", "implies(id in self._items, same_object(result, self._items[id]) and result._id == id)")])

# generator, consumer side: every yielded item is a registered, currently open item that was registered when the
# iteration started and has not been yielded before (SEEN); at exhaustion every item that was registered at the start
# and is open now has been yielded.  The generator itself only rebinds _open_items / bumps the counter.
contract(C + "get_open", props=P, verify=False,
         notes="generator: producer side verified separately (DESIGN B4); this is the consumer-side contract",
         yields={"type": "$T", "facts": [("registered", "in_cont(self, item) and old(in_cont(self, item))"),
                                         ("open", "is_open_obj(item)")]},
         ensures=[("all_yielded", "forall(lambda o=T: implies(old(in_cont(self, o)) and in_cont(self, o) and is_open_obj(o), o in SEEN))")],
         modifies=["self._reindex_counter", "self._open_items"])
