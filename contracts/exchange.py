"""backtesting.requests and the Exchange facade: the public API of the simulator (C01, C02, C03, C05, C06, C07)."""
from pyvc.contracts import contract, specfun
from contracts.order_mgr import OM_REQ, OM_INVS

R = "basana.backtesting.requests."
E = "basana.backtesting.exchange."
P = ["C01", "C02", "C05", "C06", "C07"]

# ---------------------------------------------------------------------------------------------------------------------
# request validation: prices and amounts on the pair's precision grid, > 0 (C04, C08)
# ---------------------------------------------------------------------------------------------------------------------
VT = {"pair_info": "Val:PairInfo"}
contract(R + "ExchangeOrder.validate", props=P + ["C04", "C08"], types=VT, modifies=[],
         ensures=[("amount", "self._amount > 0 and grid(self._amount, pair_info.base_precision)")],
         raises={"Error!": [("bad", "not (self._amount > 0 and self._amount == q_down(self._amount, pair_info.base_precision))")]})
for cls, extra in (("MarketOrder", "TRUE"),
                   ("LimitOrder", "self._limit_price > 0 and grid(self._limit_price, pair_info.quote_precision)"),
                   ("StopOrder", "self._stop_price > 0 and grid(self._stop_price, pair_info.quote_precision)"),
                   ("StopLimitOrder", "self._stop_price > 0 and grid(self._stop_price, pair_info.quote_precision) "
                                      "and self._limit_price > 0 and grid(self._limit_price, pair_info.quote_precision)")):
    contract(R + cls + ".validate", props=P + ["C04", "C08"], types=VT, modifies=[],
             ensures=[("amount", "self._amount > 0 and grid(self._amount, pair_info.base_precision)"), ("prices", extra)],
             raises={"Error": []})
    contract(R + cls + ".create_order", props=P + ["C05"], types={"id": "Id"}, returns="Order", modifies=[],
             requires=[("valid", "self._amount > 0" + ("" if cls == "MarketOrder" else
                                 (" and self._limit_price > 0" if "Limit" in cls else "") + (" and self._stop_price > 0" if "Stop" in cls else "")))],
             ensures=[("fresh", "fresh(result) and fresh(result._balance_updates) and fresh(result._fees) and fresh(result._fills) and fresh(result._loan_ids)"),
                      ("type", "typeis(result, '%s')" % cls),
                      ("fields", "result._id == id and result._operation == self._operation and result._pair == self._pair "
                                 "and result._amount == self._amount and st_open(result) "
                                 "and result._auto_borrow == self._auto_borrow and result._auto_repay == self._auto_repay"),
                      ("empty", "forall(lambda s=Str: not (s in result._balance_updates)) and forall(lambda s=Str: not (s in result._fees))")]
                     + ([("limit", "result._limit_price == self._limit_price")] if "Limit" in cls else [])
                     + ([("stop", "result._stop_price == self._stop_price")] if "Stop" in cls else []))

# ---------------------------------------------------------------------------------------------------------------------
# Exchange
# ---------------------------------------------------------------------------------------------------------------------
specfun("ex_wired", ["e"], "same_object(e._order_mgr._ctx.account_balances, e._balances) and same_object(e._order_mgr._ctx.config, e._config) "
                           "and same_object(e._order_mgr._ctx.prices, e._prices) and same_object(e._order_mgr._ctx.loan_mgr, e._loan_mgr) "
                           "and same_object(e._order_mgr._ctx.dispatcher, e._dispatcher) and same_object(e._loan_mgr._ctx.account_balances, e._balances)")

# what the exchange reports for a symbol (C02): available = balance - hold, total = available + hold - borrowed
contract(E + "Balance.__post_init__", props=["C02", "C01"],
         ensures=[("total", "self.total == self.available + self.hold - self.borrowed")], modifies=["self.total"])
contract(E + "Exchange._get_balance", props=["C02", "C01"], returns="Balance", modifies=[],
         requires=[("wf", "wf_account(self._balances)")],
         ensures=[("fresh", "fresh(result)"),
                  ("available", "result.available == at(self._balances.balances, symbol) - at(self._balances.holds, symbol)"),
                  ("hold", "result.hold == at(self._balances.holds, symbol)"),
                  ("borrowed", "result.borrowed == at(self._balances.borrowed, symbol)"),
                  ("total", "result.total == result.available + result.hold - result.borrowed "
                            "and result.total == at(self._balances.balances, symbol) - at(self._balances.borrowed, symbol)"),
                  # solvency: nothing the exchange reports is negative
                  ("nonneg", "result.available >= 0 and result.hold >= 0 and result.borrowed >= 0")])

def _om(reqs):
    """the order manager's requirements, seen from the exchange"""
    return [(lbl, txt.replace("self", "self._order_mgr")) for lbl, txt in reqs]


EX_REQ = [("wired", "ex_wired(self)")] + _om(OM_REQ)
EX_INV = [("wired", "ex_wired(self)")] + _om(OM_INVS) + [("holds_sum", "om_holds_sum(self._order_mgr)")]
specfun("ex_unchanged", ["e"], "om_state_unchanged(e._order_mgr)")

contract(E + "Exchange.create_order", props=P + ["C08"], types={"order_request": "ExchangeOrder"}, returns="CreatedOrder",
         requires=EX_REQ + [("configured", "wf_config(self._config, order_request._pair)"),
                            ("known", "implies(order_request._auto_borrow, known_fees(self._order_mgr._ctx.fee_strategy) "
                                      "and (typeis(order_request, 'MarketOrderReq') or typeis(order_request, 'LimitOrderReq') "
                                      "or typeis(order_request, 'StopOrderReq') or typeis(order_request, 'StopLimitOrderReq')))"),
                            ("clock", "implies(order_request._auto_borrow, clock_ok(self._loan_mgr))")],
         ensures=EX_INV + [
             ("accepted", "(result.id in self._order_mgr._orders._items) and st_open(self._order_mgr._orders._items[result.id]) "
                          "and not (result.id in old(dom(self._order_mgr._orders._items)))"),
             # placing an order never changes a total (C01)
             ("totals", "forall(lambda s=Str: total_of(self._balances, s) == old(total_of(self._balances, s)))")],
         # C07: a rejected request (validation, hold, borrowing, margin) leaves everything as it was
         raises={"Error": [("account", "forall(lambda s=Str: at(self._balances.balances, s) == old(at(self._balances.balances, s)) "
                                       "and at(self._balances.holds, s) == old(at(self._balances.holds, s)) "
                                       "and at(self._balances.borrowed, s) == old(at(self._balances.borrowed, s)))"),
                           ("orders", "content_unchanged(self._order_mgr._orders._items, self._order_mgr._orders._open_items, self._order_mgr._holds_by_order)"),
                           ("open_loans", "forall(lambda k=Id: implies((k in self._loan_mgr._loans._items) and self._loan_mgr._loans._items[k]._is_open, "
                                          "old(k in self._loan_mgr._loans._items) and old(self._loan_mgr._loans._items[k]._is_open)))")]},
         modifies=["self._balances.balances", "self._balances.holds", "self._balances.borrowed",
                   "content(self._loan_mgr._loans._items)", "content(self._loan_mgr._loans._open_items)", "self._loan_mgr._loans.pos",
                   "content(self._loan_mgr._collateral_by_loan)",
                   "content(self._order_mgr._orders._items)", "content(self._order_mgr._orders._open_items)", "self._order_mgr._orders.pos",
                   "content(self._order_mgr._holds_by_order)", "content(self._order_mgr._order_updates._obj._queue)", "self._order_mgr._order_updates._obj.pending"])

contract(E + "Exchange.cancel_order", props=P, types={"order_id": "Id"}, returns="CanceledOrder",
         requires=EX_REQ + [("clock", "clock_ok(self._loan_mgr) and forall(lambda k=Id: implies(k in self._loan_mgr._loans._items, "
                                      "now_of(self._loan_mgr) >= self._loan_mgr._loans._items[k]._created_at))")],
         ensures=EX_INV + [
             ("canceled", "(order_id in self._order_mgr._orders._items) and self._order_mgr._orders._items[order_id]._state == OrderState.CANCELED"),
             ("released", "not (order_id in self._order_mgr._holds_by_order)"),
             ("ledger", "forall(lambda s=Str: total_of(self._balances, s) - old(total_of(self._balances, s)) == GHOST.ledger[s] - old(GHOST.ledger[s]))")],
         raises={"Error": [("unchanged", "ex_unchanged(self)"),
                           ("still_open", "implies(order_id in self._order_mgr._orders._items, unchanged(self._order_mgr._orders._items[order_id]))")]},
         modifies=["self._balances.balances", "self._balances.holds", "self._balances.borrowed",
                   "content(self._order_mgr._holds_by_order)", "content(self._order_mgr._holds_by_order[order_id])",
                   "self._order_mgr._orders._items[order_id]._state", "content(self._order_mgr._orders._items[order_id]._loan_ids)",
                   "content(self._loan_mgr._collateral_by_loan)", "content(self._order_mgr._order_updates._obj._queue)", "self._order_mgr._order_updates._obj.pending", "GHOST.ledger"])

LM_EX_REQ = [("wired", "ex_wired(self)"), ("lm", "lm_inv(self._loan_mgr)")]
contract(E + "Exchange.create_loan", props=["C01", "C02", "C07", "C10"], types={"amount": "Real"}, returns="LoanInfo",
         requires=LM_EX_REQ,
         ensures=[("lm", "lm_inv(self._loan_mgr)"),
                  ("totals", "forall(lambda s=Str: total_of(self._balances, s) == old(total_of(self._balances, s)))"),
                  ("borrowed", "forall(lambda s=Str: at(self._balances.borrowed, s) == old(at(self._balances.borrowed, s)) + (amount if s == symbol else 0))")],
         raises={"Error": [("account", "unchanged(self._balances)"),
                           ("loans", "lm_state_unchanged(self._loan_mgr)")]},
         modifies=["self._balances.balances", "self._balances.holds", "self._balances.borrowed",
                   "content(self._loan_mgr._loans._items)", "content(self._loan_mgr._loans._open_items)", "self._loan_mgr._loans.pos",
                   "content(self._loan_mgr._collateral_by_loan)"])
contract(E + "Exchange.repay_loan", props=["C01", "C02", "C07", "C11"], types={"loan_id": "Id"},
         requires=LM_EX_REQ + [("cfg", "cfg_all_symbols(self._loan_mgr._ctx.config)"),
                               ("clock", "implies((loan_id in self._loan_mgr._loans._items) and self._loan_mgr._loans._items[loan_id]._is_open, "
                                         "clock_ok(self._loan_mgr) and now_of(self._loan_mgr) >= self._loan_mgr._loans._items[loan_id]._created_at)")],
         ensures=[("lm", "lm_inv(self._loan_mgr)"),
                  ("closed", "(loan_id in self._loan_mgr._loans._items) and not self._loan_mgr._loans._items[loan_id]._is_open"),
                  ("ledger", "forall(lambda s=Str: total_of(self._balances, s) - old(total_of(self._balances, s)) == GHOST.ledger[s] - old(GHOST.ledger[s]))")],
         raises={"Error": [("account", "unchanged(self._balances)"), ("loans", "lm_state_unchanged(self._loan_mgr)"),
                           ("loan_open", "implies(loan_id in self._loan_mgr._loans._items, unchanged(self._loan_mgr._loans._items[loan_id]))")]},
         modifies=["self._balances.balances", "self._balances.holds", "self._balances.borrowed",
                   "self._loan_mgr._loans._items[loan_id]._is_open", "content(self._loan_mgr._loans._items[loan_id]._paid_interest)",
                   "content(self._loan_mgr._collateral_by_loan)", "GHOST.ledger"])


# C03: the exchange matches the open orders against the bar *before* it re-publishes the bar on the pair's derived source
# (the strategies see the bar only then), and it re-publishes it on that pair's source only.
contract(E + "Exchange._on_bar_event", props=["C03", "C01", "C05"], types={"event": "BarEvent"},
         requires=EX_REQ + _om([("bar", "bar_wf(event.bar)"),
                                ("clock", "clock_ok(om_lm(self)) and now_of(om_lm(self)) == event.when "
                                          "and forall(lambda k=Id: implies(k in om_lm(self)._loans._items, now_of(om_lm(self)) >= om_lm(self)._loans._items[k]._created_at))"),
                                ("strategies", "forall(lambda p=Pair: implies(p in self._liquidity_strategies, liq_cfg(self._liquidity_strategies[p])))")])
                  + [("sources_distinct", "forall(lambda p=Pair: implies(p in self._bar_event_source, not same_object(self._bar_event_source[p], self._order_mgr._order_updates._obj) "
                                          "and forall(lambda q=Pair: implies((q in self._bar_event_source) and q != p, not same_object(self._bar_event_source[p], self._bar_event_source[q])))))")],
         ensures=[("matched", "same_object(self._order_mgr.last_bar, event)"),
                  ("republished", "implies(event.bar.pair in self._bar_event_source, event in self._bar_event_source[event.bar.pair].pending)"),
                  ("only_that_pair", "forall(lambda p=Pair: implies((p in self._bar_event_source) and p != event.bar.pair, "
                                     "forall(lambda e=Event: (e in self._bar_event_source[p].pending) == old(e in self._bar_event_source[p].pending))))")],
         site_pre={"push#0": [("matched_before_republish", "same_object(self._order_mgr.last_bar, event)")]},
         may_suspend=False, raises={"Error": [], "AssertionError": []},
         modifies=[m.replace("self.", "self._order_mgr.").replace("self._order_mgr._order_mgr", "self._order_mgr") if m.startswith("self.") or "(self." in m else m
                   for m in []] + ["content(self._order_mgr._order_updates._obj._queue)", "self._order_mgr._order_updates._obj.pending",
                                   "content(self._bar_event_source[event.bar.pair]._queue)", "self._bar_event_source[event.bar.pair].pending",
                                   "every(Order)", "every(LiquidityStrategy)", "every(ValueMap)", "every(FifoQueueEventSource)", "every(AccountBalances)",
                                   "every(OrderManager)", "every(OrderContainer)", "every(Prices)", "every(Loan)", "every(LoanManager)", "every(LoanContainer)", "GHOST.ledger"])
