"""Binance / Bitstamp wire helpers (C17, decoding side): order statuses and sides are decoded by total look-up tables."""
from pyvc.contracts import contract, specfun

BH = "basana.external.binance.helpers."
# C17: "order statuses returned or streamed by the exchanges are decoded without loss into ... open/closed flags" --
# every documented status has a flag, an undocumented one is refused (never silently mapped)
contract(BH + "order_status_is_open", props=["C17"], types={"order_status": "Str"}, returns="Bool", modifies=[],
         ensures=[("open_statuses", "result == (order_status == 'NEW' or order_status == 'PARTIALLY_FILLED' or order_status == 'PENDING_CANCEL')"),
                  ("documented", "order_status == 'NEW' or order_status == 'PARTIALLY_FILLED' or order_status == 'PENDING_CANCEL' or order_status == 'FILLED' "
                                 "or order_status == 'CANCELED' or order_status == 'REJECTED' or order_status == 'EXPIRED'")],
         raises={"AssertionError!": [("undocumented", "not (order_status == 'NEW' or order_status == 'PARTIALLY_FILLED' or order_status == 'PENDING_CANCEL' or order_status == 'FILLED' "
                                                      "or order_status == 'CANCELED' or order_status == 'REJECTED' or order_status == 'EXPIRED')")]})
contract(BH + "oco_order_status_is_open", props=["C17"], types={"list_order_status": "Str"}, returns="Bool", modifies=[],
         ensures=[("open_statuses", "result == (list_order_status == 'EXECUTING')"),
                  ("documented", "list_order_status == 'EXECUTING' or list_order_status == 'ALL_DONE' or list_order_status == 'REJECT'")],
         raises={"AssertionError!": [("undocumented", "not (list_order_status == 'EXECUTING' or list_order_status == 'ALL_DONE' or list_order_status == 'REJECT')")]})
contract(BH + "order_operation_to_side", props=["C17"], returns="Str", modifies=[],
         ensures=[("side", "result == ('BUY' if operation == OrderOperation.BUY else 'SELL')")])
contract(BH + "side_to_order_operation", props=["C17"], types={"side": "Str"}, returns="OrderOperation", modifies=[],
         ensures=[("operation", "(side == 'BUY' and result == OrderOperation.BUY) or (side == 'SELL' and result == OrderOperation.SELL)")],
         raises={"KeyError!": [("unknown_side", "side != 'BUY' and side != 'SELL'")]})
contract(BH + "get_optional_decimal", props=["C17"], types={"mapping": "Dict[Str,Str]", "key": "Str", "skip_zero": "Bool"}, returns="Opt[Real]", modifies=[],
         ensures=[("absent", "implies(not (key in mapping), is_none(result))"),
                  ("zero_skipped", "implies((key in mapping) and dec(mapping[key]) == 0 and skip_zero, is_none(result))"),
                  ("value", "implies((key in mapping) and not (dec(mapping[key]) == 0 and skip_zero), not_none(result) and result == dec(mapping[key]))")])
