"""AccountBalances and its update rules (C01, C02, C06, C07)."""
from pyvc.contracts import contract, specfun

AB = "basana.backtesting.account_balances."
P = ["C01", "C02", "C06", "C07", "C08"]

specfun("nz", ["b", "h", "r"], "forall(lambda s=Str: at(b, s) >= 0 and at(h, s) >= 0 and at(r, s) >= 0)")
specfun("vh", ["b", "h"], "forall(lambda s=Str: at(h, s) <= at(b, s))")
specfun("wf_maps", ["b", "h", "r"], "nz(b, h, r) and vh(b, h)")
specfun("wf_account", ["a"], "wf_maps(a.balances, a.holds, a.borrowed)")
specfun("rules_ok", ["a"],
        "seq_len(a._update_rules) >= 2 and typeis(seq_at(a._update_rules, 0), 'NonZero') "
        "and typeis(seq_at(a._update_rules, 1), 'ValidHold') "
        "and forall(lambda i=Int: implies(0 <= i and i < seq_len(a._update_rules), same_object(seq_at(a._update_rules, i).account, a) and rule_wf(seq_at(a._update_rules, i))))")
# class invariants of the rule classes (established when the rule is created / pushed)
specfun("rule_wf", ["r"], "implies(typeis(r, 'CheckMarginLevel'), not_none(r._margin_loans._exchange_ctx) and not_none(r._margin_loans._loan_mgr) "
                          "and same_object(r._margin_loans._exchange_ctx.account_balances, r.account) and ml_wf(r._margin_loans) "
                          "and prices_wf(r._margin_loans._exchange_ctx.prices))")
# a candidate that leaves balances and borrowed as they are and only moves holds within [0, balance]: what reserving funds
# for an accepted order and releasing them when it closes ask for.  Statement-derived (C06: "released in full when the
# order closes for any reason"; C07: no loan is left behind because the hold after a successful borrow is refused): no
# rule may reject such a candidate.  Verified for the repo's rules, assumed for user-defined ones.
specfun("release_only", ["a", "b", "h", "r"],
        "same_content(b, a.balances) and same_content(r, a.borrowed) "
        "and forall(lambda s=Str: at(h, s) >= 0 and at(h, s) <= at(b, s))")

RULE_TYPES = {"updated_balances": "Dict[Str,Real]", "updated_holds": "Dict[Str,Real]", "updated_borrowed": "Dict[Str,Real]"}

# Base contract of the abstract rule: pure; a normal return means the rule accepted the candidate maps.  What
# "accepted" means is fixed per rule class (behavioural subtyping: each override is verified against its own clause).
contract(AB + "UpdateRule.check", props=P, abstract=True, types=RULE_TYPES, modifies=[],
         ensures=[("nonzero", "implies(typeis(self, 'NonZero'), nz(updated_balances, updated_holds, updated_borrowed))"),
                  ("validhold", "implies(typeis(self, 'ValidHold'), vh(updated_balances, updated_holds))")],
         requires=[("account", "wf_account(self.account)"), ("rule", "rule_wf(self)")],
         raises={"Error": [("not_a_release", "not release_only(self.account, updated_balances, updated_holds, updated_borrowed)")]})

contract(AB + "NonZero.check", props=P, types=RULE_TYPES, modifies=[],
         requires=[("account", "wf_account(self.account)")],
         ensures=[("accepts", "nz(updated_balances, updated_holds, updated_borrowed)")],
         raises={"NotEnoughBalance!": [("witness", "exists(lambda s=Str: at(updated_balances, s) < 0)")],
                 "Error!": [("witness", "exists(lambda s=Str: at(updated_holds, s) < 0 or at(updated_borrowed, s) < 0)")]},
         loops={0: dict(invariant=[("seen", "forall(lambda s=Str: implies(s in SEEN, at(updated_balances, s) >= 0))")]),
                1: dict(invariant=[("seen", "forall(lambda s=Str: implies(s in SEEN, at(updated_holds, s) >= 0))")]),
                2: dict(invariant=[("seen", "forall(lambda s=Str: implies(s in SEEN, at(updated_borrowed, s) >= 0))")])})

contract(AB + "ValidHold.check", props=P, types=RULE_TYPES, modifies=[],
         requires=[("account", "wf_account(self.account)")],
         ensures=[("accepts", "vh(updated_balances, updated_holds)")],
         raises={"NotEnoughBalance!": [("witness", "exists(lambda s=Str: at(updated_holds, s) > at(updated_balances, s))")]},
         loops={0: dict(invariant=[("seen", "forall(lambda s=Str: implies(s in SEEN, at(updated_holds, s) <= at(updated_balances, s)))"),
                                   ("all", "forall(lambda s=Str: (s in ALL) == ((s in updated_holds) or (s in updated_balances)))")])})

contract(AB + "AccountBalances.__init__", props=P, types={"initial_balances": "Dict[Str,Real]"},
         ensures=[("wf", "wf_account(self)"), ("rules", "rules_ok(self)"),
                  ("balances", "forall(lambda s=Str: at(self.balances, s) == (at(initial_balances, s) if at(initial_balances, s) >= 0 else 0))"),
                  ("borrowed", "forall(lambda s=Str: at(self.borrowed, s) == (-at(initial_balances, s) if at(initial_balances, s) < 0 else 0))"),
                  ("holds", "forall(lambda s=Str: at(self.holds, s) == 0)")],
         modifies=["self"],
         ghost_exit=[("seq_at(self._update_rules, 0).account", "self"), ("seq_at(self._update_rules, 1).account", "self")])

contract(AB + "AccountBalances.push_update_rule", props=P,
         requires=[("rules", "rules_ok(self)"), ("rule", "implies(typeis(update_rule, 'CheckMarginLevel'), not_none(update_rule._margin_loans._exchange_ctx) "
                                                         "and not_none(update_rule._margin_loans._loan_mgr) and same_object(update_rule._margin_loans._exchange_ctx.account_balances, self) "
                                                         "and ml_wf(update_rule._margin_loans) and prices_wf(update_rule._margin_loans._exchange_ctx.prices))")],
         ensures=[("rules", "rules_ok(self)"),
                  ("append", "seq_len(self._update_rules) == old(seq_len(self._update_rules)) + 1 "
                             "and same_object(seq_at(self._update_rules, old(seq_len(self._update_rules))), update_rule)")],
         modifies=["content(self._update_rules)", "update_rule.account"],
         ghost_exit=[("update_rule.account", "self")])

UPD_TYPES = {"balance_updates": "Dict[Str,Real]", "hold_updates": "Dict[Str,Real]", "borrowed_updates": "Dict[Str,Real]"}
contract(AB + "AccountBalances.update", props=P, types=UPD_TYPES,
         requires=[("rules", "rules_ok(self)"), ("wf", "wf_account(self)")],
         ensures=[("balances", "forall(lambda s=Str: at(self.balances, s) == old(at(self.balances, s)) + at(balance_updates, s))"),
                  ("holds", "forall(lambda s=Str: at(self.holds, s) == old(at(self.holds, s)) + at(hold_updates, s))"),
                  ("borrowed", "forall(lambda s=Str: at(self.borrowed, s) == old(at(self.borrowed, s)) + at(borrowed_updates, s))"),
                  ("wf", "wf_account(self)"),
                  ("fresh_maps", "fresh(self.balances) and fresh(self.holds) and fresh(self.borrowed)")],
         raises={"Error": [("all_or_nothing", "unchanged(self)"),
                           # never raised for an update that only releases holds (C06)
                           ("not_a_release", "not (forall(lambda s=Str: not (s in balance_updates) and not (s in borrowed_updates)) "
                                             "and forall(lambda s=Str: at(self.holds, s) + at(hold_updates, s) >= 0 "
                                             "and at(self.holds, s) + at(hold_updates, s) <= at(self.balances, s)))")]},
         modifies=["self.balances", "self.holds", "self.borrowed"],
         loops={0: dict(invariant=[("nz", "implies(IDX >= 1, nz(updated_balances, updated_holds, updated_borrowed))"),
                                   ("vh", "implies(IDX >= 2, vh(updated_balances, updated_holds))")])})
