"""Sidecar contracts for gbeced/basana (nothing here is part of /repo)."""
import importlib

MODULES = ["registry", "core_values", "account", "token_bucket", "config", "fees", "liquidity", "orders", "containers", "loans", "order_mgr", "exchange", "dispatcher", "bars", "wire"]


def load_all():
    for m in MODULES:
        importlib.import_module("contracts." + m)
