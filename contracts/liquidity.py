"""Liquidity strategies (C08, C04)."""
from pyvc.contracts import contract, specfun

L = "basana.backtesting.liquidity."
P = ["C08", "C04"]

# ghost fields (registry): avail = what available_liquidity returns now; used = base amount taken since on_bar;
# granted = liquidity granted for the current bar (INF for InfiniteLiquidity)
specfun("liq_wf", ["l"], "l.avail >= 0 and l.used >= 0 and implies(not l.infinite, l.avail == l.granted - l.used and l.granted >= 0) "
                         "and implies(l.infinite, l.avail == INF) "
                         "and implies(typeis(l, 'VolumeShareImpact'), vsi_wf(l)) and implies(typeis(l, 'InfiniteLiquidity'), l.infinite)")
specfun("vsi_wf", ["l"], "l._volume_limit_pct >= 0 and l._price_impact_pct >= 0 and l._total_liquidity >= 0 "
                         "and l._used_liquidity >= 0 and l._used_liquidity <= l._total_liquidity "
                         "and l.granted == l._total_liquidity and l.used == l._used_liquidity and not l.infinite "
                         "and l.avail == l._total_liquidity - l._used_liquidity")

specfun("liq_cfg", ["l"], "implies(typeis(l, 'VolumeShareImpact'), l._volume_limit_pct >= 0 and l._price_impact_pct >= 0)")

contract(L + "LiquidityStrategy.on_bar", props=P, abstract=True,
         requires=[("cfg", "liq_cfg(self)"), ("bar", "bar.volume >= 0")],
         ensures=[("wf", "liq_wf(self)"), ("fresh_bar", "self.used == 0")],
         modifies=["self"])
contract(L + "LiquidityStrategy.available_liquidity", props=P, abstract=True, returns="Real", modifies=[],
         requires=[("wf", "liq_wf(self)")],
         ensures=[("value", "result == self.avail"), ("nonneg", "result >= 0")])
contract(L + "LiquidityStrategy.calculate_price_impact", props=P, abstract=True, returns="Real", modifies=[],
         types={"amount": "Real"},
         requires=[("wf", "liq_wf(self)"), ("amount", "amount >= 0 and amount <= self.avail and (amount > 0 or not self.infinite)")],
         ensures=[("nonneg", "result >= 0")])
contract(L + "LiquidityStrategy.take_liquidity", props=P, abstract=True, returns="Real", types={"amount": "Real"},
         requires=[("wf", "liq_wf(self)"), ("amount", "amount > 0 and amount <= self.avail")],
         ensures=[("wf", "liq_wf(self)"), ("used", "self.used == old(self.used) + amount"),
                  ("granted", "self.granted == old(self.granted) and self.infinite == old(self.infinite)"), ("nonneg", "result >= 0")],
         modifies=["self"])

# --- InfiniteLiquidity ---------------------------------------------------------------------------------------------
IL = L + "InfiniteLiquidity."
contract(IL + "on_bar", props=P, ensures=[("wf", "liq_wf(self)"), ("fresh_bar", "self.used == 0")], modifies=["self"],
         ghost_exit=[("self.used", "0"), ("self.infinite", "TRUE"), ("self.avail", "INF")])
contract(IL + "available_liquidity", props=P, returns="Real", modifies=[], requires=[("wf", "liq_wf(self)")],
         ensures=[("value", "result == self.avail"), ("inf", "result == INF")])
contract(IL + "calculate_price_impact", props=P, returns="Real", modifies=[], types={"amount": "Real"},
         requires=[("wf", "liq_wf(self)"), ("amount", "amount > 0 and amount <= self.avail")],
         ensures=[("zero", "result == 0")])
contract(IL + "take_liquidity", props=P, returns="Real", types={"amount": "Real"},
         requires=[("wf", "liq_wf(self)"), ("amount", "amount > 0 and amount <= self.avail")],
         ensures=[("wf", "liq_wf(self)"), ("used", "self.used == old(self.used) + amount"),
                  ("granted", "self.granted == old(self.granted)"), ("zero", "result == 0")],
         modifies=["self"], ghost_exit=[("self.used", "old(self.used) + amount")])

# --- VolumeShareImpact --------------------------------------------------------------------------------------------
VS = L + "VolumeShareImpact."
GH = [("self.used", "self._used_liquidity"), ("self.granted", "self._total_liquidity"), ("self.infinite", "FALSE"),
      ("self.avail", "self._total_liquidity - self._used_liquidity")]
contract(VS + "__init__", props=P, types={"volume_limit_pct": "Real", "price_impact": "Real"},
         ensures=[("wf", "liq_wf(self)"),
                  ("fields", "self._volume_limit_pct == volume_limit_pct / 100 and self._price_impact_pct == price_impact / 100 "
                             "and self._total_liquidity == 0 and self._used_liquidity == 0")],
         raises={"AssertionError!": [("bad", "not (volume_limit_pct >= 0 and price_impact >= 0)")]},
         modifies=["self"], ghost_exit=GH)
contract(VS + "on_bar", props=P, requires=[("cfg", "self._volume_limit_pct >= 0 and self._price_impact_pct >= 0"), ("bar", "bar.volume >= 0")],
         ensures=[("wf", "liq_wf(self)"), ("fresh_bar", "self.used == 0"),
                  # the liquidity the model grants for the bar: its share of the bar's volume
                  ("granted", "self.granted == bar.volume * self._volume_limit_pct")],
         modifies=["self"], ghost_exit=GH)
contract(VS + "available_liquidity", props=P, returns="Real", modifies=[], requires=[("wf", "liq_wf(self)")],
         ensures=[("value", "result == self.avail"), ("nonneg", "result >= 0")])
contract(VS + "_volume_share_impact", props=P, returns="Real", modifies=[], types={"used_liquidity": "Real"},
         requires=[("cfg", "self._price_impact_pct >= 0"), ("range", "used_liquidity >= 0 and used_liquidity <= self._total_liquidity")],
         ensures=[("nonneg", "result >= 0"),
                  ("value", "result == (0 if used_liquidity == 0 else (used_liquidity / self._total_liquidity) * (used_liquidity / self._total_liquidity) * self._price_impact_pct)")])
contract(VS + "calculate_price_impact", props=P, returns="Real", modifies=[], types={"amount": "Real"},
         requires=[("wf", "liq_wf(self)"), ("amount", "amount >= 0")],
         ensures=[("nonneg", "result >= 0"), ("fits", "amount <= self.avail")],
         raises={"Error!": [("too_much", "amount > self.avail")]})
contract(VS + "take_liquidity", props=P, returns="Real", types={"amount": "Real"},
         requires=[("wf", "liq_wf(self)"), ("amount", "amount >= 0")],
         ensures=[("wf", "liq_wf(self)"), ("used", "self.used == old(self.used) + amount"),
                  ("granted", "self.granted == old(self.granted)"), ("nonneg", "result >= 0"),
                  ("cap", "self.used <= self.granted")],
         raises={"Error!": [("too_much", "amount > old(self.avail)"), ("unchanged", "unchanged(self)")]},
         modifies=["self"], ghost_exit=GH)
