"""Prices, loans, lending strategies, LoanManager (C01, C02, C07, C10, C11)."""
from pyvc.contracts import contract, specfun

B = "basana.backtesting."
P = ["C01", "C02", "C07", "C10", "C11"]

# ---------------------------------------------------------------------------------------------------------------------
# Prices
# ---------------------------------------------------------------------------------------------------------------------
specfun("prices_wf", ["p"], "forall(lambda k=Pair: implies(k in p._last_bars, bar_wf(p._last_bars[k])))")
specfun("has_px", ["p", "a", "b"], "(mkval('Pair', a, b) in p._last_bars) or (mkval('Pair', b, a) in p._last_bars)")
specfun("px", ["p", "a", "b"], "ite(mkval('Pair', a, b) in p._last_bars, p._last_bars[mkval('Pair', a, b)].close, "
                               "1 / p._last_bars[mkval('Pair', b, a)].close)")
contract(B + "prices.Prices.convert", props=P, types={"amount": "Real"}, returns="Real", modifies=[],
         requires=[("wf", "prices_wf(self)")],
         ensures=[("value", "result == (0 if amount == 0 else amount * px(self, from_symbol, to_symbol))"),
                  ("has", "amount == 0 or has_px(self, from_symbol, to_symbol)")],
         raises={"NoPrice!": [("missing", "amount != 0 and not has_px(self, from_symbol, to_symbol)")]})

# ---------------------------------------------------------------------------------------------------------------------
# Loans
# ---------------------------------------------------------------------------------------------------------------------
L = B + "lending.base.Loan."
specfun("loan_wf", ["l"], "l._borrowed_amount > 0 and forall(lambda s=Str: at(l._paid_interest, s) >= 0)")
contract(L + "__init__", props=P, types={"id": "Id", "borrowed_symbol": "Str", "borrowed_amount": "Real"},
         ensures=[("fields", "self._id == id and self._borrowed_symbol == borrowed_symbol and self._borrowed_amount == borrowed_amount "
                             "and self._is_open and self._created_at == created_at "
                             "and forall(lambda s=Str: not (s in self._paid_interest)) and fresh(self._paid_interest)"),
                  ("wf", "loan_wf(self)")],
         raises={"AssertionError!": [("bad", "not (borrowed_amount > 0)")]}, modifies=["self"])
contract(L + "close", props=P, requires=[("open", "self._is_open")], ensures=[("closed", "not self._is_open")],
         modifies=["self._is_open"])
contract(L + "add_paid_interest", props=P, types={"interest": "Dict[Str,Real]"},
         requires=[("noalias", "not same_object(self._paid_interest, interest)")],
         ensures=[("recorded", "forall(lambda s=Str: at(self._paid_interest, s) == old(at(self._paid_interest, s)) + at(interest, s))"),
                  ("ghost_ledger", "forall(lambda s=Str: GHOST.ledger[s] == old(GHOST.ledger[s]) - at(interest, s))")],
         modifies=["content(self._paid_interest)", "GHOST.ledger"],
         ghost_exit=[("GHOST.ledger", "mmap_sub(GHOST.ledger, interest)")])
# base contracts of the abstract loan methods: pure, non-negative amounts
contract(L + "calculate_interest", props=P, abstract=True, returns="Dict[Str,Real]", modifies=[],
         types={"at": "DT", "prices": "Prices"},
         requires=[("time", "at >= self._created_at"), ("prices", "prices_wf(prices)"), ("wf", "loan_wf(self) and loan_cond_wf(self)")],
         ensures=[("fresh", "fresh(result)"), ("nonneg", "forall(lambda s=Str: val_at(result, s) >= 0)")],
         raises={"Error": []})
contract(L + "calculate_collateral", props=P, abstract=True, returns="Dict[Str,Real]", modifies=[], types={"prices": "Prices"},
         requires=[("prices", "prices_wf(prices)")],
         ensures=[("fresh", "fresh(result)"), ("nonneg", "forall(lambda s=Str: at(result, s) >= 0)"),
                  ("no_collateral", "implies(self.no_collateral, forall(lambda s=Str: not (s in result)))")],
         raises={"Error": []})

specfun("cond_wf", ["c"], "c.interest_percentage >= 0 and c.min_interest >= 0 and c.interest_period >= 0 and c.margin_requirement >= 0")
specfun("loan_cond_wf", ["l"], "implies(typeis(l, 'MarginLoan'), cond_wf(l._conditions))")
ML = B + "lending.margin.MarginLoan."
# I(l,t) = max(min_interest, pct/100 * principal * (t-created)/period [* price])   (period 0: no time factor, as coded)
specfun("ml_raw_interest", ["l", "t"],
        "(l._conditions.interest_percentage / 100 * l._borrowed_amount * (to_real(t - l._created_at) / 1000000) / (to_real(l._conditions.interest_period) / 1000000)) "
        "if l._conditions.interest_period != 0 else (l._conditions.interest_percentage / 100 * l._borrowed_amount)")
specfun("ml_interest", ["l", "t", "p"],
        "let(lambda raw=(ml_raw_interest(l, t) if l._conditions.interest_symbol == l._borrowed_symbol "
        "    else (0 if ml_raw_interest(l, t) == 0 else ml_raw_interest(l, t) * px(p, l._borrowed_symbol, l._conditions.interest_symbol))): "
        "    raw if raw >= l._conditions.min_interest else l._conditions.min_interest)")
contract(ML + "calculate_interest", props=P + ["C11"], returns="Dict[Str,Real]", modifies=[], types={"at": "DT", "prices": "Prices"},
         requires=[("time", "at >= self._created_at"), ("prices", "prices_wf(prices)"), ("wf", "loan_wf(self) and cond_wf(self._conditions)")],
         ensures=[("fresh", "fresh(result)"),
                  ("only_interest_symbol", "forall(lambda s=Str: (s in result) == (s == self._conditions.interest_symbol))"),
                  ("formula", "val_at(result, self._conditions.interest_symbol) == ml_interest(self, at, prices)"),
                  ("nonneg", "forall(lambda s=Str: val_at(result, s) >= 0)"),
                  ("at_least_min", "val_at(result, self._conditions.interest_symbol) >= self._conditions.min_interest")],
         raises={"NoPrice!": [("missing", "self._conditions.interest_symbol != self._borrowed_symbol and ml_raw_interest(self, at) != 0 "
                                         "and not has_px(prices, self._borrowed_symbol, self._conditions.interest_symbol)")]})
contract(ML + "calculate_collateral", props=P, returns="Dict[Str,Real]", modifies=[], types={"prices": "Prices"},
         ensures=[("fresh", "fresh(result)"), ("empty", "forall(lambda s=Str: not (s in result))")])

# ---------------------------------------------------------------------------------------------------------------------
# Lending strategies
# ---------------------------------------------------------------------------------------------------------------------
LS = B + "lending.base."
NEWLOAN = [("fresh", "fresh(result) and fresh(result._paid_interest)"),
           ("fields", "result._borrowed_symbol == symbol and result._borrowed_amount == amount and result._is_open "
                      "and result._created_at == created_at and forall(lambda s=Str: not (s in result._paid_interest))"),
           ("wf", "loan_wf(result) and loan_cond_wf(result)"),
           ("no_collateral", "implies(self.no_collateral, result.no_collateral)"),
           # assumed of every lending strategy: loan ids are fresh (uuid4): not a key of any existing container
           ("fresh_id", "forall(lambda c=ExchangeObjectContainer: not (result._id in c._items)) "
                        "and forall(lambda m=LoanManager: not (result._id in m._collateral_by_loan))")]
contract(LS + "LendingStrategy.create_loan", props=P, abstract=True, types={"symbol": "Str", "amount": "Real"}, returns="Loan",
         requires=[("amount", "amount > 0"), ("wf", "lending_wf(self)")], ensures=NEWLOAN, raises={"Error": []}, modifies=[])
contract(LS + "NoLoans.create_loan", props=P + ["C10"], types={"symbol": "Str", "amount": "Real"}, returns="Loan", modifies=[],
         notes="never-returns: without a lending strategy every borrow request fails",
         ensures=[("never", "FALSE")], raises={"Error!": []})
specfun("lending_wf", ["s"], "implies(typeis(s, 'MarginLoans'), ml_wf(s) and s.no_collateral)")
specfun("ml_wf", ["s"], "forall(lambda k=Str: implies(k in s._conditions, cond_wf(s._conditions[k]))) "
                        "and implies(not_none(s._default_conditions), cond_wf(s._default_conditions))")
MLS = B + "lending.margin.MarginLoans."
contract(MLS + "get_conditions", props=P, returns="MarginLoanConditions", modifies=[],
         requires=[("wf", "ml_wf(self)")],
         ensures=[("lookup", "same_object(result, self._conditions[symbol] if (symbol in self._conditions) else self._default_conditions)"),
                  ("wf", "cond_wf(result)")],
         raises={"Error!": [("none", "not (symbol in self._conditions) and is_none(self._default_conditions)")]})
contract(MLS + "create_loan", props=P, types={"symbol": "Str", "amount": "Real"}, returns="Loan", modifies=[],
         requires=[("amount", "amount > 0"), ("wf", "ml_wf(self)")],
         ensures=[x for x in NEWLOAN if x[0] != "no_collateral"] + [("no_collateral", "result.no_collateral"), ("conditions", "typeis(result, 'MarginLoan') and same_object(result._conditions, self._conditions[symbol] "
                                           "if (symbol in self._conditions) else self._default_conditions)")],
         raises={"Error!": [("none", "not (symbol in self._conditions) and is_none(self._default_conditions)")]})

# ---------------------------------------------------------------------------------------------------------------------
# LoanManager
# ---------------------------------------------------------------------------------------------------------------------
LM = B + "loan_mgr.LoanManager."
specfun("acc_of", ["m"], "m._ctx.account_balances")
specfun("cfg_all_symbols", ["c"], "forall(lambda s=Str: cfg_has_symbol(c, s))")
specfun("lm_acc", ["m"], "rules_ok(acc_of(m)) and wf_account(acc_of(m)) and prices_wf(m._ctx.prices) and lending_wf(m._lending_strategy)")
specfun("lm_coll_dom", ["m"], "forall(lambda k=Id: (k in m._collateral_by_loan) == ((k in m._loans._items) and m._loans._items[k]._is_open))")
specfun("lm_coll_nonneg", ["m"], "forall(lambda k=Id, s=Str: implies(k in m._collateral_by_loan, at(m._collateral_by_loan[k], s) >= 0 "
                                 "and implies(m._loans._items[k].no_collateral, not (s in m._collateral_by_loan[k]))))")
specfun("lm_loans_wf", ["m"], "forall(lambda k=Id: implies(k in m._loans._items, m._loans._items[k]._id == k and loan_wf(m._loans._items[k]) and loan_cond_wf(m._loans._items[k]) "
                              "and implies(m._lending_strategy.no_collateral, m._loans._items[k].no_collateral)))")
specfun("lm_inv", ["m"], "lm_acc(m) and lm_coll_dom(m) and lm_coll_nonneg(m) and lm_loans_wf(m)")
LM_INV = [("inv_acc", "lm_acc(self)"), ("inv_coll_dom", "lm_coll_dom(self)"), ("inv_coll_nonneg", "lm_coll_nonneg(self)"), ("inv_loans_wf", "lm_loans_wf(self)")]
# the simulated clock is available (a loan can only be created / repaid while an event is being handled)
specfun("clock_ok", ["m"], "not_none(m._ctx.dispatcher._last_dt)")
specfun("now_of", ["m"], "m._ctx.dispatcher._last_dt")

ACC_MOD = ["self._ctx.account_balances.balances", "self._ctx.account_balances.holds", "self._ctx.account_balances.borrowed"]

contract(LM + "_get_open_loan", props=P, returns="Loan", modifies=[], types={"loan_id": "Id"},
         ensures=[("found", "(loan_id in self._loans._items) and same_object(result, self._loans._items[loan_id]) and result._is_open and result._id == loan_id")],
         raises={"NotFound!": [("unknown", "not (loan_id in self._loans._items)")],
                 "Error!": [("closed", "(loan_id in self._loans._items) and not self._loans._items[loan_id]._is_open")]})

contract(LM + "_build_loan_info", props=P + ["C11"], returns="LoanInfo", modifies=[],
         requires=[("loan", "loan_wf(loan) and loan_cond_wf(loan)"), ("prices", "prices_wf(self._ctx.prices)"),
                   ("clock", "implies(loan._is_open, clock_ok(self) and now_of(self) >= loan._created_at)")],
         ensures=[("fresh", "fresh(result)"),
                  ("mirror", "result.id == loan._id and result.is_open == loan._is_open and result.borrowed_symbol == loan._borrowed_symbol "
                             "and result.borrowed_amount == loan._borrowed_amount"),
                  ("nonneg", "forall(lambda s=Str: at(result.outstanding_interest, s) >= 0)"),
                  ("closed_no_interest", "implies(not loan._is_open, forall(lambda s=Str: not (s in result.outstanding_interest)))")],
         # only the interest of an open loan can fail to be computed (no price, unconfigured symbol)
         raises={"Error": [("only_open", "loan._is_open")]})

contract(LM + "create_loan", props=P, types={"symbol": "Str", "amount": "Real"}, returns="LoanInfo",
         requires=[("inv", "lm_inv(self)")],
         ensures=LM_INV + [
                  ("registered", "(result.id in self._loans._items) and not old(result.id in self._loans._items) "
                                 "and fresh(self._loans._items[result.id])"),
                  ("loan", "let(lambda l=self._loans._items[result.id]: l._borrowed_symbol == symbol and l._borrowed_amount == amount and l._is_open "
                           "and clock_ok(self) and l._created_at == now_of(self))"),
                  # principal moves symmetrically through balance and borrowed: no total changes (C01)
                  ("balances", "forall(lambda s=Str: at(acc_of(self).balances, s) == old(at(acc_of(self).balances, s)) + (amount if s == symbol else 0))"),
                  ("borrowed", "forall(lambda s=Str: at(acc_of(self).borrowed, s) == old(at(acc_of(self).borrowed, s)) + (amount if s == symbol else 0))"),
                  ("holds", "forall(lambda s=Str: at(acc_of(self).holds, s) == old(at(acc_of(self).holds, s)) + at(self._collateral_by_loan[result.id], s))"),
                  ("no_collateral", "implies(self._lending_strategy.no_collateral, self._loans._items[result.id].no_collateral)"),
                  ("others", "forall(lambda k=Id: implies(k != result.id, ((k in self._loans._items) == old(k in self._loans._items)) "
                             "and implies(k in self._loans._items, same_object(self._loans._items[k], old(self._loans._items[k])))))"),
                  ("amount_pos", "amount > 0")],
         raises={"Error": [("account", "unchanged(acc_of(self))"),
                           ("loans", "content_unchanged(self._loans._items, self._loans._open_items, self._collateral_by_loan) and unchanged(self._loans)")]},
         modifies=ACC_MOD + ["content(self._loans._items)", "content(self._loans._open_items)", "self._loans.pos",
                             "content(self._collateral_by_loan)"])

REPAY_RAISES = {"Error": [("account", "unchanged(acc_of(self))"),
                          ("loans", "content_unchanged(self._loans._items, self._loans._open_items, self._collateral_by_loan) and unchanged(self._loans)"),
                          ("loan_untouched", "implies(loan_id in self._loans._items, unchanged(self._loans._items[loan_id]) "
                                             "and content_unchanged(self._loans._items[loan_id]._paid_interest))"),
                          ("ledger_same", "forall(lambda s=Str: GHOST.ledger[s] == old(GHOST.ledger[s]))")]}
contract(LM + "repay_loan", props=P + ["C11"], types={"loan_id": "Id"},
         requires=[("inv", "lm_inv(self)"), ("cfg", "cfg_all_symbols(self._ctx.config)"),
                   ("clock", "implies((loan_id in self._loans._items) and self._loans._items[loan_id]._is_open, "
                             "clock_ok(self) and now_of(self) >= self._loans._items[loan_id]._created_at)")],
         ensures=LM_INV + [
                  ("was_open", "(loan_id in self._loans._items) and old(self._loans._items[loan_id]._is_open)"),
                  ("closed", "not self._loans._items[loan_id]._is_open"),
                  # debits exactly principal + truncated interest; the same interest is recorded as paid
                  ("debit", "let(lambda l=self._loans._items[loan_id]: forall(lambda s=Str: at(acc_of(self).balances, s) == old(at(acc_of(self).balances, s)) "
                            "- (l._borrowed_amount if s == l._borrowed_symbol else 0) - (at(l._paid_interest, s) - old(at(l._paid_interest, s)))))"),
                  ("borrowed", "let(lambda l=self._loans._items[loan_id]: forall(lambda s=Str: at(acc_of(self).borrowed, s) == old(at(acc_of(self).borrowed, s)) "
                               "- (l._borrowed_amount if s == l._borrowed_symbol else 0)))"),
                  # C01: the only total that changes is by the interest paid, and the ledger records exactly that
                  ("ledger", "forall(lambda s=Str: (at(acc_of(self).balances, s) - at(acc_of(self).borrowed, s)) - old(at(acc_of(self).balances, s) - at(acc_of(self).borrowed, s)) "
                             "== GHOST.ledger[s] - old(GHOST.ledger[s]))"),
                  ("interest_nonneg", "let(lambda l=self._loans._items[loan_id]: forall(lambda s=Str: at(l._paid_interest, s) >= old(at(l._paid_interest, s))))"),
                  ("holds", "forall(lambda s=Str: at(acc_of(self).holds, s) == old(at(acc_of(self).holds, s)) - old(at(self._collateral_by_loan[loan_id], s)))")],
         raises=REPAY_RAISES,
         modifies=ACC_MOD + ["self._loans._items[loan_id]._is_open", "content(self._loans._items[loan_id]._paid_interest)",
                             "content(self._collateral_by_loan)", "GHOST.ledger"])

contract(LM + "cancel_loan", props=P, types={"loan_id": "Id"},
         requires=[("inv", "lm_inv(self)")],
         ensures=LM_INV + [
                  ("was_open", "(loan_id in self._loans._items) and old(self._loans._items[loan_id]._is_open)"),
                  ("closed", "not self._loans._items[loan_id]._is_open"),
                  # exact inverse of create_loan on the account
                  ("balances", "let(lambda l=self._loans._items[loan_id]: forall(lambda s=Str: at(acc_of(self).balances, s) == old(at(acc_of(self).balances, s)) "
                               "- (l._borrowed_amount if s == l._borrowed_symbol else 0)))"),
                  ("borrowed", "let(lambda l=self._loans._items[loan_id]: forall(lambda s=Str: at(acc_of(self).borrowed, s) == old(at(acc_of(self).borrowed, s)) "
                               "- (l._borrowed_amount if s == l._borrowed_symbol else 0)))"),
                  ("holds", "forall(lambda s=Str: at(acc_of(self).holds, s) == old(at(acc_of(self).holds, s)) - old(at(self._collateral_by_loan[loan_id], s)))")],
         raises=dict(REPAY_RAISES, **{"AssertionError!": REPAY_RAISES["Error"] + [("not_just_created", "(loan_id in self._loans._items) and (is_none(self._ctx.dispatcher._last_dt) or self._loans._items[loan_id]._created_at != now_of(self))")]}),
         modifies=ACC_MOD + ["self._loans._items[loan_id]._is_open", "content(self._collateral_by_loan)"])

# get_loans / get_loan: plumbing around _build_loan_info (iteration over filter views).  TRUSTED for now: the list
# comprehension over chained filter() views is outside pyvc's subset; the contract is what callers rely on.
contract(LM + "get_loans", props=P + ["C11"], trusted=True, returns="List[LoanInfo]", modifies=[],
         types={"borrowed_symbol": "Opt[Str]", "is_open": "Opt[Bool]"},
         requires=[("inv", "lm_loans_wf(self) and prices_wf(self._ctx.prices)")],
         ensures=[("fresh", "fresh(result)"),
                  # every element mirrors a registered loan that matches the filters ...
                  ("sound", "forall(lambda i=Int: implies(0 <= i and i < seq_len(result), "
                            "(seq_at(result, i).id in self._loans._items) and loan_info_mirrors(seq_at(result, i), self._loans._items[seq_at(result, i).id]) "
                            "and loan_matches(self._loans._items[seq_at(result, i).id], borrowed_symbol, is_open)))"),
                  # ... each matching loan exactly once
                  ("complete", "forall(lambda k=Id: implies((k in self._loans._items) and loan_matches(self._loans._items[k], borrowed_symbol, is_open), "
                               "exists(lambda i=Int: 0 <= i and i < seq_len(result) and seq_at(result, i).id == k)))"),
                  ("nodup", "forall(lambda i=Int, j=Int: implies(0 <= i and i < j and j < seq_len(result), seq_at(result, i).id != seq_at(result, j).id))")],
         raises={"Error": []},
         notes="trusted: iteration plumbing (filter views + list comprehension with a contract call per element)")
specfun("loan_matches", ["l", "sym", "op"], "(is_none(sym) or l._borrowed_symbol == sym) and (is_none(op) or l._is_open == op)")
specfun("loan_info_mirrors", ["i", "l"], "i.id == l._id and i.is_open == l._is_open and i.borrowed_symbol == l._borrowed_symbol and i.borrowed_amount == l._borrowed_amount")

contract(ML + "__init__", props=P, types={"id": "Id", "borrowed_symbol": "Str", "borrowed_amount": "Real"},
         ensures=[("fields", "self._id == id and self._borrowed_symbol == borrowed_symbol and self._borrowed_amount == borrowed_amount "
                             "and self._is_open and self._created_at == created_at and same_object(self._conditions, conditions) "
                             "and forall(lambda s=Str: not (s in self._paid_interest)) and fresh(self._paid_interest)"),
                  ("wf", "loan_wf(self)"), ("no_collateral", "self.no_collateral")],
         raises={"AssertionError!": [("bad", "not (borrowed_amount > 0)")]}, modifies=["self"],
         ghost_exit=[("self.no_collateral", "TRUE")])

# ---------------------------------------------------------------------------------------------------------------------
# margin rule (C06, C10)
# ---------------------------------------------------------------------------------------------------------------------
MT = {"updated_balances": "Dict[Str,Real]", "updated_holds": "Dict[Str,Real]", "updated_borrowed": "Dict[Str,Real]"}
# C10.  The three sums of _calculate_margin_level are spec functions of the maps (finite sums over maps are outside the
# encoding: the function itself is under a TRUSTED contract that states its definition in terms of them):
#   um   = sum over borrowed symbols of requirement(s) * borrowed[s], valued in the quote symbol at the last prices
#   eqty = sum over symbols of max(balance[s] - borrowed[s], 0), valued likewise      oint = outstanding interest, valued likewise
specfun("um", ["ml", "bor"], "ufun('used_margin', 'Real', ml, bor, ml._exchange_ctx.prices._last_bars)")
specfun("eqty", ["ml", "bal", "bor"], "ufun('equity', 'Real', ml, bal, bor, ml._exchange_ctx.prices._last_bars)")
specfun("oint", ["ml"], "ufun('outstanding_interest', 'Real', ml, ml._exchange_ctx.prices._last_bars)")
contract(MLS + "_calculate_margin_level", props=["C10", "C06"], types=MT, returns="Real", modifies=[], trusted=True,
         requires=[("ctx", "not_none(self._exchange_ctx) and not_none(self._loan_mgr)")],
         ensures=[("nonneg", "um(self, updated_borrowed) >= 0 and oint(self) >= 0 and eqty(self, updated_balances, updated_borrowed) >= 0"),
                  ("definition", "result == (0 if um(self, updated_borrowed) == 0 else "
                                 "eqty(self, updated_balances, updated_borrowed) / (um(self, updated_borrowed) + oint(self)) * 100)")],
         raises={"Error": []},
         notes="TRUSTED (finite sums over maps): margin level = equity / (used margin + interest) * 100, 0 when no margin is used")
contract(MLS + "_check_margin_level", props=["C10", "C06", "C07"], types=MT, modifies=[],
         requires=[("ctx", "not_none(self._exchange_ctx) and not_none(self._loan_mgr)")],
         # C10 (statement-derived): an update that touches funds is only let through if the equity it leaves is at least
         # the margin requirement times the value of everything borrowed
         ensures=[("margin_requirement_met", "implies(not (same_content(updated_balances, self._exchange_ctx.account_balances.balances) "
                                             "and same_content(updated_borrowed, self._exchange_ctx.account_balances.borrowed)), "
                                             "um(self, updated_borrowed) == 0 or eqty(self, updated_balances, updated_borrowed) >= um(self, updated_borrowed))")],
         # never rejects an update that changes neither balances nor borrowed amounts (C06: hold releases always pass)
         raises={"Error": [("touches_funds", "not (same_content(updated_balances, self._exchange_ctx.account_balances.balances) "
                                             "and same_content(updated_borrowed, self._exchange_ctx.account_balances.borrowed))")]})
contract(B + "lending.margin.CheckMarginLevel.check", props=["C10", "C06", "C07"], types=MT, modifies=[],
         requires=[("account", "wf_account(self.account)"), ("rule", "rule_wf(self)")],
         ensures=[],
         raises={"Error": [("not_a_release", "not release_only(self.account, updated_balances, updated_holds, updated_borrowed)")]})
