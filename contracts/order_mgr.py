"""OrderManager (C01, C02, C05, C06, C07, C08, C09)."""
from pyvc.contracts import contract, specfun

OM = "basana.backtesting.order_mgr.OrderManager."
P = ["C01", "C02", "C05", "C06", "C07", "C08", "C09"]

specfun("om_acc", ["m"], "m._ctx.account_balances")
specfun("om_lm", ["m"], "m._ctx.loan_mgr")
specfun("om_cfg", ["m"], "m._ctx.config")
specfun("om_shared", ["m"], "same_object(om_lm(m)._ctx.account_balances, om_acc(m)) and same_object(om_lm(m)._ctx.prices, m._ctx.prices) "
                            "and same_object(om_lm(m)._ctx.config, m._ctx.config) and same_object(om_lm(m)._ctx.dispatcher, m._ctx.dispatcher)")
# amounts live on the pair's precision grid (request validation puts them there; fills keep them there -- C08)
specfun("order_grid", ["m", "o"], "grid(o._amount, cfg_pair_info(om_cfg(m), o._pair).base_precision) "
                                  "and grid(at(o._balance_updates, ob(o)), cfg_pair_info(om_cfg(m), o._pair).base_precision)")
specfun("order_grid_q", ["m", "o"], "grid(at(o._balance_updates, oq(o)), cfg_pair_info(om_cfg(m), o._pair).quote_precision) "
                                    "and grid(at(o._fees, oq(o)), cfg_pair_info(om_cfg(m), o._pair).quote_precision)")
specfun("om_orders_wf", ["m"], "forall(lambda k=Id: implies(k in m._orders._items, m._orders._items[k]._id == k and order_wf(m._orders._items[k]) "
                               "and wf_config(om_cfg(m), m._orders._items[k]._pair) and order_grid(m, m._orders._items[k])))")
# holds are kept only on behalf of open orders, and never negative
specfun("om_holds_dom", ["m"], "forall(lambda k=Id: implies(k in m._holds_by_order, (k in m._orders._items) and st_open(m._orders._items[k])))")
specfun("om_holds_nonneg", ["m"], "forall(lambda k=Id, s=Str: implies(k in m._holds_by_order, at(m._holds_by_order[k], s) >= 0)) "
                                  "and forall(lambda k=Id: implies(k in m._holds_by_order, nonempty(m._holds_by_order[k])))")
# C06: what is on hold is exactly the sum of the reservations of the open orders (lending is collateral-free, see
# registry: Loan.no_collateral).  hsum is a finite sum over the keys of _holds_by_order (axioms AX-SUM-*).
specfun("hsum", ["m", "s"], "msum(dom(m._holds_by_order), lambda k=Id: at(m._holds_by_order[k], s))")
specfun("om_holds_sum", ["m"], "forall(lambda s=Str: at(om_acc(m).holds, s) == hsum(m, s))")
# axiom instances: a reservation is bounded by the sum (all reservations are >= 0)
specfun("ax_hold_bound", ["m", "k"], "forall(lambda s=Str: sum_axiom_bound(dom(m._holds_by_order), lambda j=Id: at(m._holds_by_order[j], s), k))")
# axiom instances relating the sum before and after a call that touches at most the entry of key k
specfun("ax_hold_step", ["m", "k"],
        "forall(lambda s=Str: sum_axiom_update(old(dom(m._holds_by_order)), lambda j=Id: old(at(m._holds_by_order[j], s)), "
        "                                      dom(m._holds_by_order), lambda j=Id: at(m._holds_by_order[j], s), k) "
        "                 and sum_axiom_remove(old(dom(m._holds_by_order)), lambda j=Id: old(at(m._holds_by_order[j], s)), "
        "                                      dom(m._holds_by_order), lambda j=Id: at(m._holds_by_order[j], s), k) "
        "                 and sum_axiom_insert(old(dom(m._holds_by_order)), lambda j=Id: old(at(m._holds_by_order[j], s)), "
        "                                      dom(m._holds_by_order), lambda j=Id: at(m._holds_by_order[j], s), k) "
        "                 and sum_axiom_eq(old(dom(m._holds_by_order)), lambda j=Id: old(at(m._holds_by_order[j], s)), "
        "                                  dom(m._holds_by_order), lambda j=Id: at(m._holds_by_order[j], s)))")
specfun("holds_gap_same", ["m"], "forall(lambda s=Str: at(om_acc(m).holds, s) - hsum(m, s) == old(at(om_acc(m).holds, s) - hsum(m, s)))")
specfun("om_holds_cover", ["m"], "forall(lambda k=Id, s=Str: implies(k in m._holds_by_order, at(m._holds_by_order[k], s) <= at(om_acc(m).holds, s)))")
specfun("om_ctx_wf", ["m"], "om_shared(m) and fee_wf(m._ctx.fee_strategy) and cfg_all_symbols(om_cfg(m))")
specfun("om_inv", ["m"], "om_ctx_wf(m) and lm_inv(om_lm(m)) and om_orders_wf(m) and om_holds_dom(m) and om_holds_nonneg(m)")
OM_INV = [("inv_ctx", "om_ctx_wf(self)"), ("inv_lm_acc", "lm_acc(om_lm(self))"), ("inv_lm_coll_dom", "lm_coll_dom(om_lm(self))"),
          ("inv_lm_coll_nonneg", "lm_coll_nonneg(om_lm(self))"), ("inv_lm_loans_wf", "lm_loans_wf(om_lm(self))"),
          ("inv_orders_wf", "om_orders_wf(self)"), ("inv_holds_dom", "om_holds_dom(self)"), ("inv_holds_nonneg", "om_holds_nonneg(self)")]

# ---------------------------------------------------------------------------------------------------------------------
# rounding (C08): truncate base, round quote, fees rounded up; zero entries pruned
# ---------------------------------------------------------------------------------------------------------------------
specfun("rounded_bu", ["cfg", "pair", "s", "x"],
        "ite(s == pair.base_symbol, q_down(x, cfg_pair_info(cfg, pair).base_precision), "
        "ite(s == pair.quote_symbol, q_he(x, cfg_pair_info(cfg, pair).quote_precision), x))")
specfun("rb_adj_quote", ["m", "a", "q", "has_base", "pair"],
        "ite(has_base and q_down(a, cfg_pair_info(om_cfg(m), pair).base_precision) != a, q * q_down(a, cfg_pair_info(om_cfg(m), pair).base_precision) / a, q)")
contract(OM + "_round_balance_updates", props=P + ["C04"], types={"balance_updates": "ValueMap"},
         requires=[("pair", "pair.base_symbol != pair.quote_symbol")],
         ensures=[("configured", "cfg_has_pair(om_cfg(self), pair)"),
                  # stated per symbol (base / quote / every other one) so that only two rounded terms exist
                  ("base", "at(balance_updates, pair.base_symbol) == q_down(old(at(balance_updates, pair.base_symbol)), cfg_pair_info(om_cfg(self), pair).base_precision)"),
                  # C04 (statement-derived): rounding never makes the effective price of a fill worse or better than a bound
                  # the unrounded amounts respected, beyond half a unit of the quote precision
                  ("price_kept", "forall(lambda L=Real: implies(L >= 0, "
                                 "implies(abs(old(at(balance_updates, pair.quote_symbol))) <= L * abs(old(at(balance_updates, pair.base_symbol))), "
                                 "        abs(at(balance_updates, pair.quote_symbol)) <= L * abs(at(balance_updates, pair.base_symbol)) + unit(cfg_pair_info(om_cfg(self), pair).quote_precision) / 2) "
                                 "and implies(abs(old(at(balance_updates, pair.quote_symbol))) >= L * abs(old(at(balance_updates, pair.base_symbol))), "
                                 "        abs(at(balance_updates, pair.quote_symbol)) >= L * abs(at(balance_updates, pair.base_symbol)) - unit(cfg_pair_info(om_cfg(self), pair).quote_precision) / 2)))"),
                  # the quote amount follows the base amount when that is truncated (the price is kept), then it is rounded
                  ("quote", "at(balance_updates, pair.quote_symbol) == q_he(rb_adj_quote(self, old(at(balance_updates, pair.base_symbol)), old(at(balance_updates, pair.quote_symbol)), "
                            "old(pair.base_symbol in balance_updates), pair), cfg_pair_info(om_cfg(self), pair).quote_precision)"),
                  ("others", "forall(lambda s=Str: implies(s != pair.base_symbol and s != pair.quote_symbol, at(balance_updates, s) == old(at(balance_updates, s))))"),
                  ("pruned", "forall(lambda s=Str: (s in balance_updates) == (old(s in balance_updates) and at(balance_updates, s) != 0))"),
                  ("grid", "grid(at(balance_updates, pair.base_symbol), cfg_pair_info(om_cfg(self), pair).base_precision) "
                           "and grid(at(balance_updates, pair.quote_symbol), cfg_pair_info(om_cfg(self), pair).quote_precision)")],
         raises={"Error!": [("missing", "not cfg_has_pair(om_cfg(self), pair)"), ("unchanged", "content_unchanged(balance_updates)")]},
         modifies=["content(balance_updates)"])
# the same function for amounts that are already on the base grid (validated requests are): nothing is truncated, the
# quote amount is only rounded -- a contract without the price-keeping quotient, used by _estimate_required_balances
contract(OM + "_round_balance_updates", variant="ongrid", props=["C06", "C07", "C08"], types={"balance_updates": "ValueMap"},
         requires=[("pair", "pair.base_symbol != pair.quote_symbol"),
                   ("on_grid", "implies(cfg_has_pair(om_cfg(self), pair), grid(at(balance_updates, pair.base_symbol), cfg_pair_info(om_cfg(self), pair).base_precision))")],
         ensures=[("configured", "cfg_has_pair(om_cfg(self), pair)"),
                  ("base", "at(balance_updates, pair.base_symbol) == old(at(balance_updates, pair.base_symbol))"),
                  ("quote", "at(balance_updates, pair.quote_symbol) == q_he(old(at(balance_updates, pair.quote_symbol)), cfg_pair_info(om_cfg(self), pair).quote_precision)"),
                  ("others", "forall(lambda s=Str: implies(s != pair.base_symbol and s != pair.quote_symbol, at(balance_updates, s) == old(at(balance_updates, s))))"),
                  ("pruned", "forall(lambda s=Str: (s in balance_updates) == (old(s in balance_updates) and at(balance_updates, s) != 0))"),
                  ("grid", "grid(at(balance_updates, pair.base_symbol), cfg_pair_info(om_cfg(self), pair).base_precision) "
                           "and grid(at(balance_updates, pair.quote_symbol), cfg_pair_info(om_cfg(self), pair).quote_precision)")],
         raises={"Error!": [("missing", "not cfg_has_pair(om_cfg(self), pair)"), ("unchanged", "content_unchanged(balance_updates)")]},
         modifies=["content(balance_updates)"])
specfun("rounded_fee", ["cfg", "pair", "s", "x"],
        "ite(s == pair.base_symbol, q_up(x, cfg_pair_info(cfg, pair).base_precision), "
        "ite(s == pair.quote_symbol, q_up(x, cfg_pair_info(cfg, pair).quote_precision), x))")
contract(OM + "_round_fees", props=P, types={"fees": "ValueMap"},
         requires=[("pair", "pair.base_symbol != pair.quote_symbol")],
         ensures=[("configured", "cfg_has_pair(om_cfg(self), pair)"),
                  ("base", "at(fees, pair.base_symbol) == q_up(old(at(fees, pair.base_symbol)), cfg_pair_info(om_cfg(self), pair).base_precision)"),
                  ("quote", "at(fees, pair.quote_symbol) == q_up(old(at(fees, pair.quote_symbol)), cfg_pair_info(om_cfg(self), pair).quote_precision)"),
                  ("others", "forall(lambda s=Str: implies(s != pair.base_symbol and s != pair.quote_symbol, at(fees, s) == old(at(fees, s))))"),
                  ("pruned", "forall(lambda s=Str: (s in fees) == (old(s in fees) and at(fees, s) != 0))"),
                  ("grid", "grid(at(fees, pair.base_symbol), cfg_pair_info(om_cfg(self), pair).base_precision) "
                           "and grid(at(fees, pair.quote_symbol), cfg_pair_info(om_cfg(self), pair).quote_precision)")],
         raises={"Error!": [("missing", "not cfg_has_pair(om_cfg(self), pair)"), ("unchanged", "content_unchanged(fees)")]},
         modifies=["content(fees)"],
         loops={0: dict(invariant=[
             ("done_base", "implies(pair.base_symbol in SEEN, at(fees, pair.base_symbol) == q_up(old(at(fees, pair.base_symbol)), cfg_pair_info(om_cfg(self), pair).base_precision))"),
             ("done_quote", "implies(pair.quote_symbol in SEEN, at(fees, pair.quote_symbol) == q_up(old(at(fees, pair.quote_symbol)), cfg_pair_info(om_cfg(self), pair).quote_precision))"),
             ("dom", "forall(lambda s=Str: (s in fees) == old(s in fees))"),
             ("todo", "forall(lambda s=Str: implies(not (s in SEEN), at(fees, s) == old(at(fees, s)) and (s in fees) == old(s in fees)))"),
             ("all", "forall(lambda s=Str: (s in ALL) == (s == pair.base_symbol or s == pair.quote_symbol))")],
             modifies=["content(fees)"])})

# ---------------------------------------------------------------------------------------------------------------------
# _update_balances (DESIGN B2): apply a balance update for an order and release its hold accordingly
# ---------------------------------------------------------------------------------------------------------------------
specfun("oh_of", ["m", "o"], "m._holds_by_order[o._id]")
specfun("has_hold", ["m", "o"], "(o._id in m._holds_by_order) and nonempty(m._holds_by_order[o._id])")
# how much of the order's hold is released by an update bu while the order stays open: min(spent, remaining)
specfun("rel", ["m", "o", "bu", "s"],
        "ite(at(bu, s) < 0 and (s in oh_of(m, o)), (at(bu, s) if at(bu, s) >= -at(oh_of(m, o), s) else -at(oh_of(m, o), s)), 0)")
ACC3 = ["self._ctx.account_balances.balances", "self._ctx.account_balances.holds", "self._ctx.account_balances.borrowed"]
contract(OM + "_update_balances", props=P, types={"balance_updates": "Dict[Str,Real]"},
         requires=[("acc", "rules_ok(om_acc(self)) and wf_account(om_acc(self))"),
                   ("holds_nonneg", "implies(order._id in self._holds_by_order, forall(lambda s=Str: at(oh_of(self, order), s) >= 0))"),
                   ("noalias", "implies(order._id in self._holds_by_order, not same_object(oh_of(self, order), balance_updates))")],
         ensures=[("acc", "rules_ok(om_acc(self)) and wf_account(om_acc(self))"),
                  ("balances", "forall(lambda s=Str: at(om_acc(self).balances, s) == old(at(om_acc(self).balances, s)) + at(balance_updates, s))"),
                  ("borrowed", "forall(lambda s=Str: at(om_acc(self).borrowed, s) == old(at(om_acc(self).borrowed, s)))"),
                  # no hold entry / empty entry: holds untouched, registry untouched
                  ("no_hold", "implies(not old(has_hold(self, order)), forall(lambda s=Str: at(om_acc(self).holds, s) == old(at(om_acc(self).holds, s))) "
                              "and forall(lambda k=Id: (k in self._holds_by_order) == old(k in self._holds_by_order)))"),
                  # open order: the reservation shrinks by min(spent, remaining), the same map object is kept
                  ("open", "implies(old(has_hold(self, order)) and st_open(order), "
                           "forall(lambda s=Str: at(om_acc(self).holds, s) == old(at(om_acc(self).holds, s)) + old(rel(self, order, balance_updates, s))) "
                           "and (order._id in self._holds_by_order) and same_object(oh_of(self, order), old(oh_of(self, order))) "
                           "and forall(lambda s=Str: at(oh_of(self, order), s) == old(at(oh_of(self, order), s)) + old(rel(self, order, balance_updates, s))) "
                           "and forall(lambda s=Str: at(oh_of(self, order), s) >= 0) "
                           "and forall(lambda s=Str: implies(old(s in oh_of(self, order)), s in oh_of(self, order))) "
                           "and forall(lambda k=Id: (k in self._holds_by_order) == old(k in self._holds_by_order)))"),
                  # closed order: everything it still held is released and the entry is gone
                  ("closed", "implies(old(has_hold(self, order)) and not st_open(order), "
                             "forall(lambda s=Str: at(om_acc(self).holds, s) == old(at(om_acc(self).holds, s)) - old(at(oh_of(self, order), s))) "
                             "and not (order._id in self._holds_by_order) "
                             "and forall(lambda k=Id: implies(k != order._id, (k in self._holds_by_order) == old(k in self._holds_by_order))))"),
                  ("others", "forall(lambda k=Id: implies(k != order._id and (k in self._holds_by_order), same_object(self._holds_by_order[k], old(self._holds_by_order[k]))))"),
                  # the account's holds and the sum of the reservations move together (C06)
                  ("holds_gap", "holds_gap_same(self)")],
         axioms=[("sum_step", "ax_hold_step(self, order._id)")],
         raises={"Error": [("account", "unchanged(om_acc(self))"),
                           ("holds", "content_unchanged(self._holds_by_order) and implies(order._id in self._holds_by_order, content_unchanged(oh_of(self, order)))"),
                           # releasing the hold of a closed order (no balance change) is never refused, provided the
                           # account really holds what the order reserved
                           ("not_a_release", "not (forall(lambda s=Str: not (s in balance_updates)) and not st_open(order) "
                                             "and implies(order._id in self._holds_by_order, forall(lambda s=Str: at(oh_of(self, order), s) <= at(om_acc(self).holds, s))))")]},
         modifies=ACC3 + ["content(self._holds_by_order)", "content(self._holds_by_order[order._id])"])

# ---------------------------------------------------------------------------------------------------------------------
# order events (C05): one pushed OrderEvent per acceptance / fill / closure, carrying the order's state at that moment
# ---------------------------------------------------------------------------------------------------------------------
contract("basana.core.dt.is_naive", props=["C05", "C12"], trusted=True, returns="Bool", modifies=[],
         ensures=[("aware", "result == False")],
         notes="assumption 3.3: every datetime in the model is timezone-aware (Event.__init__ asserts it)")

specfun("evq", ["m"], "m._order_updates._obj._queue")
specfun("ev_enabled", ["m"], "not_none(m._order_updates._obj)")
contract(OM + "_push_order_update", props=["C05"], types={"when": "Opt[DT]"},
         ensures=[
             # an event is pushed iff there is a time for it (explicit, or the dispatcher clock) and somebody subscribed
             ("pushed", "implies(ev_enabled(self) and (not_none(when) or not_none(self._ctx.dispatcher._last_dt)), "
                        "seq_len(evq(self)) == old(seq_len(evq(self))) + 1 "
                        "and typeis(seq_at(evq(self), seq_len(evq(self)) - 1), 'OrderEvent') "
                        "and seq_at(evq(self), seq_len(evq(self)) - 1).when == (when if not_none(when) else self._ctx.dispatcher._last_dt) "
                        "and event_mirrors(seq_at(evq(self), seq_len(evq(self)) - 1).order, order))"),
             ("not_pushed", "implies(not (ev_enabled(self) and (not_none(when) or not_none(self._ctx.dispatcher._last_dt))), "
                            "implies(ev_enabled(self), seq_len(evq(self)) == old(seq_len(evq(self)))))")],
         modifies=["content(self._order_updates._obj._queue)", "self._order_updates._obj.pending"])
# the pushed OrderInfo equals the order state at the time of the push
specfun("event_mirrors", ["info", "o"],
        "info.id == o._id and info.is_open == st_open(o) and info.operation == o._operation and info.amount == o._amount "
        "and info.amount_filled == filled(o) and info.amount_remaining == pending(o) "
        "and info.quote_amount_filled == abs(at(o._balance_updates, oq(o))) "
        "and forall(lambda s=Str: at(info.fees, s) == -at(o._fees, s))")

# ---------------------------------------------------------------------------------------------------------------------
# reservation of a new order (C06)
# ---------------------------------------------------------------------------------------------------------------------
# What the order may spend, as the statement lists it: the base amount of a sell, the estimated quote cost plus fees
# of a buy, and any fee a sell's proceeds would not cover -- i.e. the negative part of (rounded estimate + rounded fees).
specfun("known_order", ["o"], "typeis(o, 'MarketOrder') or typeis(o, 'LimitOrder') or typeis(o, 'StopOrder') or typeis(o, 'StopLimitOrder')")
specfun("known_fees", ["f"], "typeis(f, 'NoFee') or typeis(f, 'Percentage')")
specfun("est_price", ["m", "o"],
        "ite(typeis(o, 'LimitOrder') or typeis(o, 'StopLimitOrder'), o._limit_price, ite(typeis(o, 'StopOrder'), o._stop_price, "
        "ite(o._pair in m._ctx.prices._last_bars, m._ctx.prices._last_bars[o._pair].close, 0)))")
specfun("bp_of", ["m", "o"], "cfg_pair_info(om_cfg(m), o._pair).base_precision")
specfun("qp_of", ["m", "o"], "cfg_pair_info(om_cfg(m), o._pair).quote_precision")
specfun("est_b", ["m", "o"], "q_down(o._amount if is_buy(o) else -o._amount, bp_of(m, o))")
# (stated for amounts on the base grid -- validated requests are -- where truncation is the identity and the quote estimate is not rescaled)
specfun("est_q", ["m", "o"], "q_he(o._amount * est_price(m, o) * (-1 if is_buy(o) else 1), qp_of(m, o))")
specfun("est_fee_q", ["m", "o"],
        "ite(typeis(m._ctx.fee_strategy, 'Percentage') and est_b(m, o) != 0 and est_q(m, o) != 0, "
        "q_up(pct_total_fee(m._ctx.fee_strategy, est_q(m, o)), qp_of(m, o)), 0)")
specfun("req_of", ["m", "o", "s"],
        "ite(s == ob(o), (-est_b(m, o) if est_b(m, o) < 0 else 0), "
        "ite(s == oq(o), (-(est_q(m, o) + est_fee_q(m, o)) if est_q(m, o) + est_fee_q(m, o) < 0 else 0), 0))")
contract(OM + "_estimate_required_balances", props=["C06", "C07", "C08"], returns="ValueMap", modifies=[], callee_variant="ongrid",
         requires=[("order", "order_wf(order) and wf_config(om_cfg(self), order._pair)"), ("fees", "fee_wf(self._ctx.fee_strategy)"),
                   # validated requests have their amount on the base grid (requests.validate, C08)
                   ("amount_on_grid", "grid(order._amount, bp_of(self, order)) and grid(-order._amount, bp_of(self, order))"),
                   ("prices", "prices_wf(self._ctx.prices)"),
                   ("new", "forall(lambda s=Str: not (s in order._balance_updates)) and forall(lambda s=Str: not (s in order._fees))")],
         ensures=[("fresh", "fresh(result)"),
                  ("nonneg", "forall(lambda s=Str: at(result, s) >= 0 and implies(s in result, at(result, s) > 0))"),
                  # stated per symbol first (base / quote / any other), each a small query; the quantified form follows
                  ("reservation_base", "implies(known_order(order) and known_fees(self._ctx.fee_strategy), "
                                       "at(result, ob(order)) == req_of(self, order, ob(order)))"),
                  ("reservation_quote", "implies(known_order(order) and known_fees(self._ctx.fee_strategy), "
                                        "at(result, oq(order)) == req_of(self, order, oq(order)))"),
                  ("reservation_others", "implies(known_order(order) and known_fees(self._ctx.fee_strategy), "
                                         "forall(lambda s=Str: implies(s != ob(order) and s != oq(order), at(result, s) == 0)))"),
                  ("reservation", "implies(known_order(order) and known_fees(self._ctx.fee_strategy), "
                                  "forall(lambda s=Str: at(result, s) == req_of(self, order, s)))")])

# ---------------------------------------------------------------------------------------------------------------------
# auto-borrow with rollback (C07, C10), auto-repay (C11)
# ---------------------------------------------------------------------------------------------------------------------
specfun("lm_state_unchanged", ["lm"], "content_unchanged(lm._loans._items, lm._loans._open_items, lm._collateral_by_loan) and unchanged(lm._loans)")
specfun("avail", ["a", "s"], "at(a.balances, s) - at(a.holds, s)")
LM_MOD = ["content(self._ctx.loan_mgr._loans._items)", "content(self._ctx.loan_mgr._loans._open_items)", "self._ctx.loan_mgr._loans.pos",
          "content(self._ctx.loan_mgr._collateral_by_loan)"]
specfun("old_loans_kept", ["m"],
        "forall(lambda k=Id: implies(old(k in om_lm(m)._loans._items), (k in om_lm(m)._loans._items) "
        "and same_object(om_lm(m)._loans._items[k], old(om_lm(m)._loans._items[k])) "
        "and om_lm(m)._loans._items[k]._is_open == old(om_lm(m)._loans._items[k]._is_open)))")
BORROW_LM = [("lm_acc", "lm_acc(om_lm(self))"), ("lm_coll_dom", "lm_coll_dom(om_lm(self))"), ("lm_coll_nonneg", "lm_coll_nonneg(om_lm(self))"),
             ("lm_loans_wf", "lm_loans_wf(om_lm(self))")]
contract(OM + "_borrow", props=["C07", "C10", "C02", "C01"], types={"required_balances": "ValueMap", "loan_ids": "List[Id]"},
         requires=[("ctx", "om_ctx_wf(self)"), ("lm", "lm_inv(om_lm(self))"), ("clock", "clock_ok(om_lm(self))"),
                   ("collateral_free", "om_lm(self)._lending_strategy.no_collateral"),
                   ("required", "forall(lambda s=Str: at(required_balances, s) >= 0)"),
                   ("symbols", "forall(lambda s=Str: implies(s in required_balances, s == ob(order) or s == oq(order))) and ob(order) != oq(order)")],
         ensures=BORROW_LM + [
                  # afterwards the available funds cover what is required
                  ("covered", "forall(lambda s=Str: implies(s in required_balances, avail(om_acc(self), s) >= at(required_balances, s)))"),
                  # principal moves through balance and borrowed symmetrically (C01); holds untouched (no collateral)
                  ("totals", "forall(lambda s=Str: at(om_acc(self).balances, s) - at(om_acc(self).borrowed, s) == old(at(om_acc(self).balances, s) - at(om_acc(self).borrowed, s)))"),
                  ("borrowed_grows", "forall(lambda s=Str: at(om_acc(self).borrowed, s) >= old(at(om_acc(self).borrowed, s)))"),
                  ("holds_same", "forall(lambda s=Str: at(om_acc(self).holds, s) == old(at(om_acc(self).holds, s)))"),
                  ("existing_loans", "old_loans_kept(self)")],
         # a failed borrow leaves no loan behind: every loan created in this call has been cancelled again
         raises={"Error": BORROW_LM + [
                                   ("account", "forall(lambda s=Str: at(om_acc(self).balances, s) == old(at(om_acc(self).balances, s)) "
                                               "and at(om_acc(self).holds, s) == old(at(om_acc(self).holds, s)) "
                                               "and at(om_acc(self).borrowed, s) == old(at(om_acc(self).borrowed, s)))"),
                                   ("open_loans", "forall(lambda k=Id: implies((k in om_lm(self)._loans._items) and om_lm(self)._loans._items[k]._is_open, "
                                                  "old(k in om_lm(self)._loans._items) and old(om_lm(self)._loans._items[k]._is_open)))"),
                                   ("existing_loans", "old_loans_kept(self)"),
                                   ("order", "content_unchanged(order._loan_ids)")]},
         modifies=ACC3 + LM_MOD + ["content(order._loan_ids)"],
         # a pair has two symbols, so at most two loans are needed: the three loops are unrolled completely (the unwinding
         # assertions are obligations, discharged from `symbols`)
         loops={0: dict(unroll=2), 1: dict(unroll=2), 2: dict(unroll=2)})

# ---------------------------------------------------------------------------------------------------------------------
# auto-repay (C11): open loans in the acquired symbol, largest first, as far as funds allow
# ---------------------------------------------------------------------------------------------------------------------
# the symbol an order acquires when it trades: the base symbol of a buy, the quote symbol of a sell
specfun("cs", ["o"], "ob(o) if is_buy(o) else oq(o)")
specfun("lm_items", ["m"], "om_lm(m)._loans._items")
# a loan that this call closed
specfun("closed_here", ["m", "k"], "(k in lm_items(m)) and old(lm_items(m)[k]._is_open) and not lm_items(m)[k]._is_open")
# what never changes about a registered loan (only _is_open and the paid interest do)
specfun("loans_static", ["m"],
        "forall(lambda k=Id: ((k in lm_items(m)) == old(k in lm_items(m))) and implies(k in lm_items(m), "
        "same_object(lm_items(m)[k], old(lm_items(m)[k])) and lm_items(m)[k]._id == old(lm_items(m)[k]._id) "
        "and lm_items(m)[k]._borrowed_symbol == old(lm_items(m)[k]._borrowed_symbol) "
        "and lm_items(m)[k]._borrowed_amount == old(lm_items(m)[k]._borrowed_amount) "
        "and lm_items(m)[k]._created_at == old(lm_items(m)[k]._created_at) "
        "and lm_items(m)[k].no_collateral == old(lm_items(m)[k].no_collateral) "
        "and implies(lm_items(m)[k]._is_open, old(lm_items(m)[k]._is_open))))")
REPAY_POST = [
    # only interest leaves the account: totals change exactly by what the ledger records (C01)
    ("ledger", "forall(lambda s=Str: (at(om_acc(self).balances, s) - at(om_acc(self).borrowed, s)) - old(at(om_acc(self).balances, s) - at(om_acc(self).borrowed, s)) "
               "== GHOST.ledger[s] - old(GHOST.ledger[s]))"),
    ("holds_same", "forall(lambda s=Str: at(om_acc(self).holds, s) == old(at(om_acc(self).holds, s)))"),
    # loans are only closed, never opened / replaced / re-dated (C11)
    ("loans_only_close", "loans_static(self)"),
    # C11 (statement): only loans in the symbol the order acquired are repaid
    ("credit_symbol_only", "forall(lambda k=Id: implies(closed_here(self, k), lm_items(self)[k]._borrowed_symbol == cs(order)))")]
contract(OM + "_repay_loans", props=["C11", "C01", "C02"], types={"loan_ids": "List[Id]"},
         requires=[("ctx", "om_ctx_wf(self)"), ("lm", "lm_inv(om_lm(self))"), ("clock", "clock_ok(om_lm(self))"),
                   ("collateral_free", "om_lm(self)._lending_strategy.no_collateral"),
                   ("clock2", "forall(lambda k=Id: implies(k in om_lm(self)._loans._items, now_of(om_lm(self)) >= om_lm(self)._loans._items[k]._created_at))")],
         ensures=BORROW_LM + REPAY_POST + [
                  # nothing but the loans closed here is recorded on the order
                  ("recorded_1", "forall(lambda k=Id: implies(k in order._loan_ids, old(k in order._loan_ids) or closed_here(self, k)))"),
                  # (the converse, "every loan closed here is recorded", needs an existential witness into a list grown by
                  # append, which z3 leaves undecided: not claimed)
                  ("recorded_old", "forall(lambda k=Id: implies(old(k in order._loan_ids), k in order._loan_ids))")],
         modifies=ACC3 + ["content(self._ctx.loan_mgr._collateral_by_loan)", "content(order._loan_ids)", "GHOST.ledger", "every(Loan)"],
         # C11 (statement): "repaid largest first": when a loan is attempted, every strictly larger loan in the acquired
         # symbol that is still open has been attempted before (and could not be afforded)
         site_pre={"repay_loan#0": [("largest_first",
                   "forall(lambda k=Id: implies((k in lm_items(self)) and lm_items(self)[k]._is_open and lm_items(self)[k]._borrowed_symbol == cs(order) "
                   "and lm_items(self)[k]._borrowed_amount > loan.borrowed_amount, "
                   "exists(lambda i=Int: 0 <= i and i < IDX and seq_at(candidate_loans, i).id == k)))"),
                   ("in_symbol_and_open", "(loan.id in lm_items(self)) and lm_items(self)[loan.id]._borrowed_symbol == cs(order) "
                                          "and lm_items(self)[loan.id]._is_open")]},
         loops={0: dict(invariant=BORROW_LM + REPAY_POST + [
                            ("ctx", "om_ctx_wf(self)"), ("clock", "clock_ok(om_lm(self)) and now_of(om_lm(self)) == old(now_of(om_lm(self)))"),
                            ("collateral_free", "om_lm(self)._lending_strategy.no_collateral"),
                            ("order_same", "content_unchanged(order._loan_ids)"),
                            # what the candidate list is (established once, from get_loans / the filter / list.sort)
                            ("cands_in", "forall(lambda i=Int: implies(0 <= i and i < len(candidate_loans), seq_at(candidate_loans, i).id in lm_items(self)))"),
                            ("cands_sym", "forall(lambda i=Int: implies(0 <= i and i < len(candidate_loans), lm_items(self)[seq_at(candidate_loans, i).id]._borrowed_symbol == cs(order)))"),
                            ("cands_amount", "forall(lambda i=Int: implies(0 <= i and i < len(candidate_loans), "
                                             "lm_items(self)[seq_at(candidate_loans, i).id]._borrowed_amount == seq_at(candidate_loans, i).borrowed_amount))"),
                            ("cands_open", "forall(lambda i=Int: implies(0 <= i and i < len(candidate_loans), let(lambda k=seq_at(candidate_loans, i).id: old(lm_items(self)[k]._is_open))))"),
                            ("sorted", "forall(lambda i=Int, j=Int: implies(0 <= i and i < j and j < len(candidate_loans), "
                                       "seq_at(candidate_loans, i).borrowed_amount >= seq_at(candidate_loans, j).borrowed_amount))"),
                            ("nodup", "forall(lambda i=Int, j=Int: implies(0 <= i and i < j and j < len(candidate_loans), "
                                      "seq_at(candidate_loans, i).id != seq_at(candidate_loans, j).id))"),
                            ("complete", "forall(lambda k=Id: implies((k in lm_items(self)) and old(lm_items(self)[k]._is_open) and lm_items(self)[k]._borrowed_symbol == cs(order), "
                                         "exists(lambda i=Int: 0 <= i and i < len(candidate_loans) and seq_at(candidate_loans, i).id == k)))"),
                            # only loans already attempted have been closed
                            ("closed_prefix", "forall(lambda k=Id: implies(closed_here(self, k), exists(lambda i=Int: 0 <= i and i < IDX and seq_at(candidate_loans, i).id == k)))"),
                            ("recorded_2", "forall(lambda i=Int: implies(0 <= i and i < len(loan_ids), let(lambda k=seq_at(loan_ids, i): closed_here(self, k))))")],
                        # C11 (statement): "as far as funds allow" -- a loan that cannot be afforded does not end the attempts
                        visits_all="every open loan of the acquired symbol is attempted, also after one could not be afforded",
                        modifies=ACC3 + ["content(self._ctx.loan_mgr._collateral_by_loan)", "GHOST.ledger", "every(Loan)", "content(loan_ids)"]),
                1: dict(invariant=[("recorded_1", "forall(lambda k=Id: implies(k in order._loan_ids, old(k in order._loan_ids) or "
                                                  "exists(lambda i=Int: 0 <= i and i < IDX and i < len(loan_ids) and seq_at(loan_ids, i) == k)))"),
                                   ("recorded_2", "forall(lambda k=Id: implies(old(k in order._loan_ids), k in order._loan_ids))"),
                                   ("recorded_3", "forall(lambda i=Int: implies(0 <= i and i < IDX, seq_at(loan_ids, i) in order._loan_ids))")],
                        modifies=["content(order._loan_ids)"])},
         # anything but NotEnoughBalance raised by a repayment (NoPrice, missing lending conditions) escapes: a prefix of the
         # repayments has happened, the books are consistent
         raises={"Error": BORROW_LM + REPAY_POST},
         notes="auto-repay: iteration over get_loans() (TRUSTED plumbing contract), list.sort builtin contract")

# What the callers of _repay_loans are verified against (variant H_repay): the contract that used to be TRUSTED for the
# whole function, unchanged.  It differs from the contract proved above in two ways, both assumptions on the callers' side:
#   (H-repay)  no exception other than NotEnoughBalance is raised inside auto-repay, i.e. the interest of every open loan
#              can be priced and every borrowed symbol has lending conditions and a configured precision;
#   (frame)    the callers' frames do not list the loans' `_is_open` / paid interest, so what they prove about loans across
#              the closing of an auto-repay order is relative to "loans only close" below, not to an exact frame.
# The real function is verified against the main contract above (exceptional exit admitted, exact frame every(Loan)).
contract(OM + "_repay_loans", variant="H_repay", props=["C11", "C01", "C02"],
         requires=[("ctx", "om_ctx_wf(self)"), ("lm", "lm_inv(om_lm(self))"), ("clock", "clock_ok(om_lm(self))"),
                   ("collateral_free", "om_lm(self)._lending_strategy.no_collateral"),
                   ("clock2", "forall(lambda k=Id: implies(k in om_lm(self)._loans._items, now_of(om_lm(self)) >= om_lm(self)._loans._items[k]._created_at))")],
         ensures=BORROW_LM + [
                  ("ledger", "forall(lambda s=Str: (at(om_acc(self).balances, s) - at(om_acc(self).borrowed, s)) - old(at(om_acc(self).balances, s) - at(om_acc(self).borrowed, s)) "
                             "== GHOST.ledger[s] - old(GHOST.ledger[s]))"),
                  ("holds_same", "forall(lambda s=Str: at(om_acc(self).holds, s) == old(at(om_acc(self).holds, s)))"),
                  ("loans_only_close", "forall(lambda k=Id: ((k in om_lm(self)._loans._items) == old(k in om_lm(self)._loans._items)) "
                                       "and implies(k in om_lm(self)._loans._items, same_object(om_lm(self)._loans._items[k], old(om_lm(self)._loans._items[k])) "
                                       "and implies(om_lm(self)._loans._items[k]._is_open, old(om_lm(self)._loans._items[k]._is_open))))")],
         modifies=ACC3 + ["content(self._ctx.loan_mgr._collateral_by_loan)", "content(order._loan_ids)", "GHOST.ledger"],
         trusted=True,
         notes="TRUSTED caller-side view of auto-repay: hypothesis H-repay (only NotEnoughBalance is raised inside auto-repay) and a "
               "frame that omits the loans' own fields; every postcondition listed here is proved for the real function by the main contract")

# ---------------------------------------------------------------------------------------------------------------------
# closing an order: release its hold (C06), auto-repay (C11)
# ---------------------------------------------------------------------------------------------------------------------
specfun("holds_total_eq", ["m"], "TRUE")
contract(OM + "_order_closed", props=P + ["C11"], callee_variant="H_repay",
         requires=[("ctx", "om_ctx_wf(self)"), ("lm", "lm_inv(om_lm(self))"), ("closed", "not st_open(order)"), ("order", "order_wf(order)"),
                   ("collateral_free", "om_lm(self)._lending_strategy.no_collateral"),
                   ("holds_nonneg", "om_holds_nonneg(self)"),
                   # what the order reserved is really on hold (callers get it from holds == sum of reservations)
                   ("cover", "implies(order._id in self._holds_by_order, forall(lambda s=Str: at(oh_of(self, order), s) <= at(om_acc(self).holds, s)))"),
                   ("clock", "implies(order._auto_repay and filled(order) != 0, clock_ok(om_lm(self)) and "
                             "forall(lambda k=Id: implies(k in om_lm(self)._loans._items, now_of(om_lm(self)) >= om_lm(self)._loans._items[k]._created_at)))")],
         ensures=BORROW_LM + [
                  # released in full, entry removed (C06)
                  ("released", "not (order._id in self._holds_by_order) "
                               "and forall(lambda k=Id: implies(k != order._id, ((k in self._holds_by_order) == old(k in self._holds_by_order)) "
                               "and implies(k in self._holds_by_order, same_object(self._holds_by_order[k], old(self._holds_by_order[k])))))"),
                  ("holds", "forall(lambda s=Str: at(om_acc(self).holds, s) == old(at(om_acc(self).holds, s)) - (old(at(oh_of(self, order), s)) if old(order._id in self._holds_by_order) else 0))"),
                  ("holds_nonneg", "om_holds_nonneg(self)"), ("holds_gap", "holds_gap_same(self)"),
                  ("ledger", "forall(lambda s=Str: (at(om_acc(self).balances, s) - at(om_acc(self).borrowed, s)) - old(at(om_acc(self).balances, s) - at(om_acc(self).borrowed, s)) "
                             "== GHOST.ledger[s] - old(GHOST.ledger[s]))")],
         axioms=[("step", "ax_hold_step(self, order._id)")],
         # statement-derived: closing an order never fails ("released in full when the order closes for any reason")
         raises={},
         modifies=ACC3 + ["content(self._holds_by_order)", "content(self._holds_by_order[order._id])",
                          "content(self._ctx.loan_mgr._collateral_by_loan)", "content(order._loan_ids)", "GHOST.ledger"])

# ---------------------------------------------------------------------------------------------------------------------
# _process_order (DESIGN B3): one order against one bar
# ---------------------------------------------------------------------------------------------------------------------
specfun("total_of", ["a", "s"], "at(a.balances, s) - at(a.borrowed, s)")
specfun("in_orders", ["m", "o"], "(o._id in m._orders._items) and same_object(m._orders._items[o._id], o)")
specfun("fok", ["o"], "typeis(o, 'MarketOrder') or typeis(o, 'StopOrder')")
PO_REQ = [("ctx", "om_ctx_wf(self)"), ("lm", "lm_inv(om_lm(self))"), ("collateral_free", "om_lm(self)._lending_strategy.no_collateral"),
          ("orders", "om_orders_wf(self)"), ("holds_dom", "om_holds_dom(self)"), ("holds_nonneg", "om_holds_nonneg(self)"),
          ("holds_sum", "om_holds_sum(self)"),
          ("order", "in_orders(self, order) and st_open(order)"), ("pair", "order._pair == bar_event.bar.pair"),
          ("bar", "bar_wf(bar_event.bar)"), ("liq", "liq_wf(liquidity_strategy)"),
          # the dispatcher clock equals the bar event's time while it is handled (C12), and no loan is younger
          ("clock", "clock_ok(om_lm(self)) and now_of(om_lm(self)) == bar_event.when "
                    "and forall(lambda k=Id: implies(k in om_lm(self)._loans._items, now_of(om_lm(self)) >= om_lm(self)._loans._items[k]._created_at))")]
PO_INV = [("order_wf", "order_wf(order)"),
          ("order_grid_base", "grid(at(order._balance_updates, ob(order)), bp_of(self, order))"),
          ("inv_ctx", "om_ctx_wf(self)"), ("inv_lm_acc", "lm_acc(om_lm(self))"), ("inv_lm_coll_dom", "lm_coll_dom(om_lm(self))"),
          ("inv_lm_coll_nonneg", "lm_coll_nonneg(om_lm(self))"), ("inv_lm_loans_wf", "lm_loans_wf(om_lm(self))"),
          ("inv_orders_wf", "om_orders_wf(self)"), ("inv_holds_dom", "om_holds_dom(self)"), ("inv_holds_nonneg", "om_holds_nonneg(self)"),
          ("inv_holds_maps", "forall(lambda k=Id: implies(k != order._id and (k in self._holds_by_order), old(k in self._holds_by_order) "
                             "and same_object(self._holds_by_order[k], old(self._holds_by_order[k])) and content_unchanged(self._holds_by_order[k])))"),
          ("inv_holds_gap", "holds_gap_same(self)"),
          ("inv_holds_sum", "om_holds_sum(self)")]
OM_INVS = [x for x in PO_INV if x[0].startswith("inv_") and x[0] not in ("inv_holds_maps", "inv_holds_gap")]
contract(OM + "_process_order", props=P + ["C04", "C11", "C03"],
         types={"liquidity_strategy": "LiquidityStrategy"},
         requires=PO_REQ,
         axioms=[("bound", "ax_hold_bound(self, order._id)"), ("step", "ax_hold_step(self, order._id)")],
         hints=[("pending_on_grid", "grid(pending(order), bp_of(self, order)) and grid(-pending(order), bp_of(self, order))")],
         ensures=[("others_untouched", "forall(lambda k=Id: implies(k != order._id and (k in self._orders._items), unchanged(self._orders._items[k]) "
                                       "and content_unchanged(self._orders._items[k]._balance_updates, self._orders._items[k]._fees)))")] + PO_INV + [
             # C01: totals move only by what is recorded on orders / paid as interest
             ("ledger", "forall(lambda s=Str: total_of(om_acc(self), s) - old(total_of(om_acc(self), s)) == GHOST.ledger[s] - old(GHOST.ledger[s]))"),
             # C05: monotone state machine; fill-or-kill orders never stay open after their first bar
             ("monotone", "filled(order) >= old(filled(order)) and filled(order) <= order._amount"),
             # C03/C05: at most one fill per bar, stamped with the bar event's time
             ("fill_time", "seq_len(order._fills) <= old(seq_len(order._fills)) + 1 and implies(seq_len(order._fills) > old(seq_len(order._fills)), "
                           "seq_at(order._fills, seq_len(order._fills) - 1).when == bar_event.when)"),
             ("fill_or_kill", "implies(fok(order), not st_open(order))"),
             ("fok_no_partial", "implies(fok(order), filled(order) == old(filled(order)) or filled(order) == order._amount)"),
             ("closed_iff", "implies(not st_open(order), filled(order) >= order._amount or order._state == OrderState.CANCELED)"),
             # C06: a closed order holds nothing
             ("released", "implies(not st_open(order), not (order._id in self._holds_by_order))"),
             # C08: liquidity is taken exactly for the base amount applied to the account
             ("liquidity", "liquidity_strategy.used - old(liquidity_strategy.used) == filled(order) - old(filled(order)) and liq_wf(liquidity_strategy)"),
         ],
         # An update rule may fail with an error other than NotEnoughBalance (e.g. NoPrice from the margin rule); the fill is
         # then abandoned atomically: nothing of it has happened.
         # C04: a limit / stop-limit order never trades at an effective price worse than its limit, up to half a unit of the
         # quote precision -- stated on the very maps that are recorded as the fill (amounts after rounding)
         site_pre={"__add__#0": [
                       # C09: the fee recorded with a fill is the percentage of the quote amount actually booked (cumulative,
                       # minus what was already charged), rounded up to the quote precision -- not of some other amount
                       ("fee_of_booked_amount", "implies(typeis(self._ctx.fee_strategy, 'Percentage'), at(fees, oq(order)) == "
                                                "q_up(pct_pending(self._ctx.fee_strategy, order, balance_updates, oq(order)), qp_of(self, order)))")],
                   "add_fill#0": [
                       ("limit_bound", "implies(typeis(order, 'LimitOrder') or typeis(order, 'StopLimitOrder'), "
                                                  "(abs(at(balance_updates, oq(order))) <= order._limit_price * abs(at(balance_updates, ob(order))) + unit(qp_of(self, order)) / 2) if is_buy(order) "
                                                  "else (abs(at(balance_updates, oq(order))) >= order._limit_price * abs(at(balance_updates, ob(order))) - unit(qp_of(self, order)) / 2))")]},
         raises={"Error": [("atomic", "unchanged(om_acc(self)) and order._state == old(order._state) and content_unchanged(order._balance_updates, order._fees, order._fills) "
                                      "and liquidity_strategy.used == old(liquidity_strategy.used) "
                                      "and forall(lambda s=Str: GHOST.ledger[s] == old(GHOST.ledger[s]))")]},
         modifies=ACC3 + ["content(self._holds_by_order)", "content(self._holds_by_order[order._id])", "all(order)", "content(order._balance_updates)",
                          "content(order._fees)", "content(order._fills)", "content(order._loan_ids)", "all(liquidity_strategy)",
                          "content(self._ctx.loan_mgr._collateral_by_loan)", "content(self._order_updates._obj._queue)", "self._order_updates._obj.pending", "GHOST.ledger"])

# ---------------------------------------------------------------------------------------------------------------------
# public operations: add_order, cancel_order, on_bar_event
# ---------------------------------------------------------------------------------------------------------------------
OM_REQ = [("ctx", "om_ctx_wf(self)"), ("lm", "lm_inv(om_lm(self))"), ("collateral_free", "om_lm(self)._lending_strategy.no_collateral"),
          ("orders", "om_orders_wf(self)"), ("holds_dom", "om_holds_dom(self)"), ("holds_nonneg", "om_holds_nonneg(self)"),
          ("holds_sum", "om_holds_sum(self)")]
specfun("om_state_unchanged", ["m"],
        "unchanged(om_acc(m)) and content_unchanged(m._orders._items, m._orders._open_items, m._holds_by_order) and unchanged(m._orders) "
        "and lm_state_unchanged(om_lm(m)) "
        "and forall(lambda k=Id: implies(k in om_lm(m)._loans._items, om_lm(m)._loans._items[k]._is_open == old(om_lm(m)._loans._items[k]._is_open)))")

contract(OM + "add_order", props=P + ["C10", "C03"],
         axioms=[("step", "ax_hold_step(self, order._id)")],
         requires=OM_REQ + [
             ("new_order", "order_wf(order) and st_open(order) and wf_config(om_cfg(self), order._pair) and order_grid(self, order) "
                           "and forall(lambda s=Str: not (s in order._balance_updates)) and forall(lambda s=Str: not (s in order._fees)) "
                           "and not (order._id in self._orders._items) and not (order._id in self._holds_by_order)"),
             ("known", "implies(order._auto_borrow, known_order(order) and known_fees(self._ctx.fee_strategy))"),
             ("clock", "implies(order._auto_borrow, clock_ok(om_lm(self)))")],
         ensures=OM_INVS + [
             ("registered", "in_orders(self, order) and st_open(order)"),
             # C03: submitting an order never fills it -- fills only come from later bars
             ("not_filled_on_submit", "seq_len(order._fills) == old(seq_len(order._fills)) and filled(order) == old(filled(order))"),
             # C06: the order reserves what it may spend; without borrowing it is accepted exactly when the available funds cover it
             ("hold", "forall(lambda s=Str: at(om_acc(self).holds, s) == old(at(om_acc(self).holds, s)) + "
                      "(at(oh_of(self, order), s) if (order._id in self._holds_by_order) else 0))"),
             ("totals", "forall(lambda s=Str: total_of(om_acc(self), s) == old(total_of(om_acc(self), s)))"),
             ("no_borrow_no_change", "implies(not order._auto_borrow, forall(lambda s=Str: at(om_acc(self).balances, s) == old(at(om_acc(self).balances, s)) "
                                     "and at(om_acc(self).borrowed, s) == old(at(om_acc(self).borrowed, s))))"),
             ("covered", "implies(order._id in self._holds_by_order, forall(lambda s=Str: at(oh_of(self, order), s) <= old(avail(om_acc(self), s)) "
                         "or order._auto_borrow))")],
         # C07: a rejected request leaves balances, holds, borrowed, open orders and open loans as they were
         raises={"Error": [("account", "forall(lambda s=Str: at(om_acc(self).balances, s) == old(at(om_acc(self).balances, s)) "
                                       "and at(om_acc(self).holds, s) == old(at(om_acc(self).holds, s)) "
                                       "and at(om_acc(self).borrowed, s) == old(at(om_acc(self).borrowed, s)))"),
                           ("orders", "content_unchanged(self._orders._items, self._orders._open_items, self._holds_by_order) and unchanged(self._orders)"),
                           ("open_loans", "forall(lambda k=Id: implies((k in om_lm(self)._loans._items) and om_lm(self)._loans._items[k]._is_open, "
                                          "old(k in om_lm(self)._loans._items) and old(om_lm(self)._loans._items[k]._is_open)))"),
                           ("existing_loans", "old_loans_kept(self)")]},
         modifies=ACC3 + LM_MOD + ["content(self._orders._items)", "content(self._orders._open_items)", "self._orders.pos",
                                   "content(self._holds_by_order)", "content(order._loan_ids)", "content(self._order_updates._obj._queue)", "self._order_updates._obj.pending"])

contract(OM + "cancel_order", props=P, types={"order_id": "Id"},
         axioms=[("bound", "ax_hold_bound(self, order_id)"), ("step", "ax_hold_step(self, order_id)")],
         requires=OM_REQ + [("clock", "clock_ok(om_lm(self)) and forall(lambda k=Id: implies(k in om_lm(self)._loans._items, now_of(om_lm(self)) >= om_lm(self)._loans._items[k]._created_at))")],
         ensures=OM_INVS + [
             ("canceled", "(order_id in self._orders._items) and old(st_open(self._orders._items[order_id])) "
                          "and self._orders._items[order_id]._state == OrderState.CANCELED"),
             ("released", "not (order_id in self._holds_by_order)"),
             ("ledger", "forall(lambda s=Str: total_of(om_acc(self), s) - old(total_of(om_acc(self), s)) == GHOST.ledger[s] - old(GHOST.ledger[s]))")],
         # C07 / C05: a failed cancellation changes nothing -- in particular the order stays open
         raises={"Error": [("unchanged", "om_state_unchanged(self)"),
                           ("order_untouched", "implies(order_id in self._orders._items, unchanged(self._orders._items[order_id]))"),
                           ("why", "not (order_id in self._orders._items) or not st_open(self._orders._items[order_id])")]},
         modifies=ACC3 + ["content(self._holds_by_order)", "content(self._holds_by_order[order_id])", "self._orders._items[order_id]._state",
                          "content(self._orders._items[order_id]._loan_ids)", "content(self._ctx.loan_mgr._collateral_by_loan)",
                          "content(self._order_updates._obj._queue)", "self._order_updates._obj.pending", "GHOST.ledger"])

# the liquidity strategy factory the user configured: returns a fresh, well-configured strategy (assumed)
contract("opaque:liquidity_strategy_factory", trusted=True, returns="LiquidityStrategy",
         ensures=[("fresh", "fresh(result)"), ("cfg", "liq_cfg(result)")],
         notes="assumed contract of the user-supplied factory (VolumeShareImpact / InfiniteLiquidity constructors are verified)")

specfun("closed_stay", ["m"], "forall(lambda k=Id: implies(old(k in m._orders._items) and not old(st_open(m._orders._items[k])), "
                              "unchanged(m._orders._items[k]) and content_unchanged(m._orders._items[k]._balance_updates, m._orders._items[k]._fees)))")
BAR_INV = OM_INVS + [
    ("collateral_free", "om_lm(self)._lending_strategy.no_collateral"),
    ("ledger", "forall(lambda s=Str: total_of(om_acc(self), s) - old(total_of(om_acc(self), s)) == GHOST.ledger[s] - old(GHOST.ledger[s]))"),
    ("registry_stable", "forall(lambda k=Id: ((k in self._orders._items) == old(k in self._orders._items)) "
                        "and implies(k in self._orders._items, same_object(self._orders._items[k], old(self._orders._items[k]))))"),
    ("closed_stay", "closed_stay(self)"),
    ("monotone", "forall(lambda k=Id: implies(k in self._orders._items, filled(self._orders._items[k]) >= old(filled(self._orders._items[k]))))"),
    ("loans_clock", "forall(lambda k=Id: implies(k in om_lm(self)._loans._items, now_of(om_lm(self)) >= om_lm(self)._loans._items[k]._created_at))"),
]
BAR_MOD = ACC3 + ["content(self._holds_by_order)", "every(Order)", "every(LiquidityStrategy)",
                  "content(self._ctx.loan_mgr._collateral_by_loan)", "content(self._order_updates._obj._queue)", "self._order_updates._obj.pending", "GHOST.ledger",
                  "every(ValueMap)", "self._orders._reindex_counter", "self._orders._open_items"]
contract(OM + "on_bar_event", props=P + ["C04", "C11", "C03"],
         requires=OM_REQ + [("bar", "bar_wf(bar_event.bar)"),
                            ("clock", "clock_ok(om_lm(self)) and now_of(om_lm(self)) == bar_event.when "
                                      "and forall(lambda k=Id: implies(k in om_lm(self)._loans._items, now_of(om_lm(self)) >= om_lm(self)._loans._items[k]._created_at))"),
                            ("strategies", "forall(lambda p=Pair: implies(p in self._liquidity_strategies, liq_cfg(self._liquidity_strategies[p])))")],
         ensures=BAR_INV + [
             # C05/C08: every order of the pair that was open when the bar arrived has been processed: fill-or-kill orders are closed
             ("matched", "same_object(self.last_bar, bar_event)"),
             ("fok_closed", "forall(lambda k=Id: implies((k in self._orders._items) and old(st_open(self._orders._items[k])) "
                            "and self._orders._items[k]._pair == bar_event.bar.pair and fok(self._orders._items[k]), not st_open(self._orders._items[k])))")],
         raises={"Error": []},
         modifies=BAR_MOD + ["self.last_bar"],
         ghost_exit=[("self.last_bar", "bar_event")],
         loops={0: dict(invariant=BAR_INV + [
             ("liq", "liq_wf(liquidity_strategy)"),
             ("seen_fok", "forall(lambda o=Order: implies(o in SEEN and fok(o), not st_open(o)))")],
             modifies=BAR_MOD)})
